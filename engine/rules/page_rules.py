"""Page layer rules of the writer and reader (C11; parts reused by C02, C06, C03)."""
from mirlib import *
from proto import *
from cache_rules import strip_casts, const_val, slice_of, is_self_field, clobber_points, PR

PW = "paged_writer::PagedWriter::<T>::"
PWW = "<paged_writer::PagedWriter<T> as std::io::Write>::write"
PWF = "<paged_writer::PagedWriter<T> as std::io::Write>::flush"
RCP = PW + "read_current_page"
WSPEC = dict(adt="paged_writer::PagedWriter", impl_self="paged_writer::PagedWriter<T>", buf="page_buffer", key="offset", cursor="offset")
PAGE, PAYLOAD, CRC = 1024, 1020, 4


def _is_dev(t):
    return self_field(strip(t)) == "writer"


def seal_before_emit(ctx, prog, rule, crc_kind):
    for path in (PWW, PWF):
        f = prog.fn(path)
        ctx.fn_seen(f)
        R = Resolver(f)
        emits = [bi for bi, t in f.calls(lambda c, t: c.endswith("Write::write_all")) if _is_dev(R.operand(f.blocks[bi]["term"]["args"][0]))]
        ctx.ob(rule, "emit-sites/%s" % short(path), len(emits) == 1, "%d device write_all sites" % len(emits), nontrivial=False)
        for W in emits:
            data = strip(R.operand(f.blocks[W]["term"]["args"][1]))
            whole = is_self_field(data, "page_buffer")
            # sealing store
            seals = []
            for bi, t in f.calls(lambda c, t: c.endswith("copy_from_slice")):
                dst = slice_of(R.operand(t["args"][0]))
                src = strip_casts(R.operand(t["args"][1]))
                if dst is None or not is_self_field(dst[0], "page_buffer") or dst[1] != "from" or const_val(dst[2]) != PAYLOAD:
                    continue
                if not (src[0] == "call" and src[1].endswith("::to_be_bytes")):
                    continue
                crc = strip(src[2][0])
                if crc[0] != "call":
                    continue
                kind = "table" if crc[1].endswith("Crc32::calculate") else ("crate" if crc[1].endswith("crc32c::crc32c") else None)
                sl = slice_of(crc[2][-1])
                if kind != crc_kind or sl is None or not is_self_field(sl[0], "page_buffer"):
                    continue
                if not ((sl[1] == "to" and const_val(sl[3]) == PAYLOAD) or (sl[1] == "range" and const_val(sl[2]) == 0 and const_val(sl[3]) == PAYLOAD)):
                    continue
                seals.append((bi, crc[3]))
            ok_seal = whole and any(f.dominates(sb, W) for sb, _ in seals)
            # no mutation of the payload between CRC computation and the device write
            clean = True
            if ok_seal:
                sb, cb = [s for s in seals if f.dominates(s[0], W)][0]
                for P in clobber_points(f, WSPEC):
                    if P == sb:
                        continue
                    if find_path(f.cfg(), f.cfg().get(cb, []), {P}, set()) and find_path(f.cfg(), [P], {W}, set()) and P != W:
                        clean = False
            ctx.ob(rule, "seal-before-emit/%s" % short(path), ok_seal and clean,
                   "device write of the whole page_buffer=%s; dominated by page_buffer[1020..] = to_be_bytes(crc(page_buffer[..1020]))=%s; payload untouched in between=%s" % (whole, ok_seal, clean),
                   where=f.file_line(W))


def flush_before_seek(ctx, prog, rule):
    for name in ("physical_seek", "physical_size"):
        f = prog.fn(PW + name)
        S = Steps(ctx, f, rule)
        S.step("flush", calls_where(f, lambda c, t, R: c == PWF))
        S.step("device-cursor", calls_where(f, lambda c, t, R: (c.endswith("Seek::seek") or c.endswith("Seek::stream_position") or c == RCP)))
        S.must_pass("flush")
        S.before("flush", "device-cursor")
    # physical_size leaves the device cursor where it was: after looking at the end of the device every successful
    # path seeks back to the position taken before (the next flush writes the buffered page at the cursor)
    g = prog.fn(PW + "physical_size")
    Rg = Resolver(g)
    pos_b = [bi for bi, t in g.calls(lambda c, t: c.endswith("Seek::stream_position"))]
    end_b = [bi for bi, t in g.calls(lambda c, t: c.endswith("Seek::seek") and strip(Rg.operand(t["args"][1]))[0] == "agg" and strip(Rg.operand(t["args"][1]))[1][2] in ("End", "Current"))]
    back_b = []
    for bi, t in g.calls(lambda c, t: c.endswith("Seek::seek")):
        a = strip(Rg.operand(t["args"][1]))
        if a[0] == "agg" and a[1][2] == "Start" and a[2] and strip(a[2][0])[0] == "call" and len(strip(a[2][0])) > 3 and strip(a[2][0])[3] in pos_b:
            back_b.append(bi)
    if end_b:
        okb = bool(back_b) and all(g.ok_reachable(removed=back_b, start=g.cfg().get(e, [])) is None for e in end_b)
    else:
        okb = True                  # the cursor is never moved
    ctx.ob(rule, "cursor-restored/%s" % short(g.path), okb, "physical_size: %d seek(s) away from the current position, every successful path afterwards seeks back to the saved stream position (%d restoring seeks)" % (len(end_b), len(back_b)))
    # physical_seek details
    f = prog.fn(PW + "physical_seek")
    R = Resolver(f)
    S = Steps(ctx, f, rule)
    page_start = lambda t: (t[0] == "agg" and t[1][2] == "Start" and _is_page_start(strip_casts(t[2][0])))
    S.step("seek-page-start", calls_where(f, lambda c, t, R: c.endswith("Seek::seek") and page_start(strip(R.operand(t["args"][1])))))
    S.step("reload", calls_where(f, lambda c, t, R: c == RCP))
    ctx.ob(rule, "seek-reload-seek/%s" % short(f.path), len(S.steps["seek-page-start"]) == 2 and len(S.steps["reload"]) == 1
           and f.dominates(S.steps["seek-page-start"][0], S.steps["reload"][0]) and f.dominates(S.steps["reload"][0], S.steps["seek-page-start"][1]),
           "physical_seek positions the device at (pos/1024)*1024, reloads the page and positions it there again: seeks=%d reloads=%d" % (len(S.steps["seek-page-start"]), len(S.steps["reload"])))
    S.must_pass("reload")
    # rejections dominate the offset assignment
    offs = field_assignments(f, "paged_writer::PagedWriter", "offset")
    ok_off = len(offs) == 1
    if ok_off:
        bi, si, kind, payload = offs[0]
        t = strip_casts(R.rvalue(payload))
        ok_off = t[0] == "binop" and t[1] == "Rem" and strip_casts(t[2]) == ("param", 2) and const_val(t[3]) == PAGE
        ok_off = ok_off and bool(S.steps["reload"]) and f.dominates(S.steps["reload"][0], bi)
    ctx.ob(rule, "offset-after-reload/%s" % short(f.path), ok_off, "self.offset = pos %% 1024 is assigned once, after the page reload succeeded")
    guards = {"beyond-end": False, "into-checksum": False}
    for bi in f.cfg():
        t = f.blocks[bi]["term"]
        if t["k"] != "switch":
            continue
        dl = op_place(t["discr"])
        d = strip(R.place(dl)) if dl else None
        if not d or d[0] != "binop" or d[1] not in ("Gt", "Ge", "Lt", "Le"):
            continue
        a, b = strip_casts(d[2]), strip_casts(d[3])
        e = switch_edges(f, bi)
        tr, fa = e["otherwise"], e.get("0")
        reload_b = S.steps["reload"][0] if S.steps["reload"] else None
        if a == ("param", 2) and strip(b)[0] == "call" and strip(b)[1].endswith("Seek::seek") and d[1] == "Gt":
            guards["beyond-end"] = f.ok_reachable(start=[tr]) is None and reload_b is not None and f.dominates(bi, reload_b)
        if a[0] == "binop" and a[1] == "Rem" and const_val(a[3]) == PAGE and const_val(b) == PAYLOAD and d[1] == "Ge":
            guards["into-checksum"] = f.ok_reachable(start=[tr]) is None and reload_b is not None and f.dominates(bi, reload_b)
    # the same rejection in any spelling of the comparison (offset < 1020 accepted, > 1019 rejected, through try_from)
    if not guards["into-checksum"]:
        def in_page(x):
            x = strip(x)
            while x[0] == "cast":
                x = strip(x[2])
            return x[0] == "binop" and x[1] == "Rem" and strip_casts(x[2]) == ("param", 2) and const_val(x[3]) == PAGE
        for bi in f.cfg():
            ot = order_test(f, R, bi)
            if ot is None:
                continue
            rej = succ_when_at_least(ot, in_page, PAYLOAD)
            reload_b = S.steps["reload"][0] if S.steps["reload"] else None
            if rej is not None and reload_b is not None:
                guards["into-checksum"] = f.ok_reachable(start=[rej]) is None and f.dominates(bi, reload_b)
    for k, v in guards.items():
        ctx.ob(rule, "rejection/%s/%s" % (k, short(f.path)), v, "physical_seek fails for a target %s, before the device is repositioned" % k)


def _is_page_start(t):
    # (pos / 1024) * 1024
    if t[0] == "binop" and t[1] == "Mul":
        for a, b in ((t[2], t[3]), (t[3], t[2])):
            a, b = strip_casts(a), strip_casts(b)
            if const_val(b) == PAGE and a[0] == "binop" and a[1] == "Div" and const_val(a[3]) == PAGE and strip_casts(a[2]) == ("param", 2):
                return True
    if t[0] == "binop" and t[1] == "Sub":
        a, b = strip_casts(t[2]), strip_casts(t[3])
        return a == ("param", 2) and b[0] == "binop" and b[1] == "Rem" and const_val(b[3]) == PAGE
    return False


def reload_after_advance(ctx, prog, rule):
    f = prog.fn(PWW)
    S = Steps(ctx, f, rule)
    R = Resolver(f)
    S.step("emit", calls_where(f, lambda c, t, R: c.endswith("Write::write_all") and _is_dev(R.operand(t["args"][0]))))
    S.step("position", calls_where(f, lambda c, t, R: c.endswith("Seek::stream_position")))
    S.step("reload", calls_where(f, lambda c, t, R: c == RCP))
    pos = S.steps["position"]

    def seek_back(c, t, R):
        if not c.endswith("Seek::seek"):
            return False
        a = strip(R.operand(t["args"][1]))
        return a[0] == "agg" and a[1][2] == "Start" and strip(a[2][0])[0] == "call" and strip(a[2][0])[3] in pos
    S.step("seek-back", calls_where(f, seek_back))
    S.before("emit", "position")
    S.before("position", "reload")
    S.before("reload", "seek-back")
    # on the full-page path all four happen: from emit, return is unreachable without passing seek-back
    ok = bool(S.steps["emit"]) and bool(S.steps["seek-back"]) and f.ok_reachable(removed=S.steps["seek-back"], start=S.steps["emit"]) is None
    ctx.ob(rule, "full-page-path/%s" % short(f.path), ok, "after emitting a full page every successful path reloads the next page and restores the device position")
    # offset reset to 0 between emit and reload
    offs = field_assignments(f, "paged_writer::PagedWriter", "offset")
    zero = [bi for bi, si, kind, p in offs if kind == "stmt" and const_val(R.rvalue(p)) == 0]
    okz = len(zero) == 1 and bool(S.steps["emit"]) and bool(S.steps["reload"]) and f.dominates(S.steps["emit"][0], zero[0]) and (f.dominates(zero[0], S.steps["reload"][0]))
    ctx.ob(rule, "offset-reset/%s" % short(f.path), okz, "self.offset = 0 after the page was emitted and before the next page is loaded")
    # the copy into the buffer: page_buffer[offset..offset+n] <- buf[..n], n = min(buf.len(), 1020 - offset); full-page test offset == 1020
    okc = False
    for bi, t in f.calls(lambda c, t: c.endswith("copy_from_slice")):
        dst = slice_of(R.operand(t["args"][0]))
        src = slice_of(R.operand(t["args"][1]))
        if dst and src and is_self_field(dst[0], "page_buffer") and dst[1] == "range" and is_self_field(dst[2], "offset"):
            hi = strip_casts(dst[3])
            n = strip_casts(src[3]) if src[1] == "to" else None
            if hi[0] == "binop" and hi[1] == "Add" and is_self_field(hi[2], "offset") and n is not None and strip_casts(hi[3]) == n:
                if n[0] == "call" and n[1].endswith("::min"):
                    parts = [strip_casts(x) for x in n[2]]
                    has_len = any(p[0] == "call" and p[1].endswith("::len") for p in parts)
                    has_rem = any(p[0] == "binop" and p[1] == "Sub" and const_val(p[2]) == PAYLOAD and is_self_field(p[3], "offset") for p in parts)
                    okc = has_len and has_rem and strip(R.operand(t["args"][1]))[0] == "call"
    ctx.ob(rule, "buffer-copy/%s" % short(f.path), okc, "page_buffer[offset..offset+n] <- buf[..n] with n = min(buf.len(), 1020 - offset)")
    # the emit is reachable only through the outcome "new cursor == 1020" of a test of the cursor (the field itself or
    # the value that is stored into it)
    okt = False
    test_blocks = set()
    stored = [strip_casts(R.rvalue(p)) for bi, si, kind, p in offs if kind == "stmt" and const_val(R.rvalue(p)) != 0]
    for bi in f.cfg():
        te = int_test_edges(f, R, bi)
        full_succ = None
        if te is not None:
            val, cases, others = te
            v = strip_casts(val)
            if (is_self_field(v, "offset") or v in stored) and PAYLOAD in cases:
                full_succ = cases[PAYLOAD]
        else:
            t = f.blocks[bi]["term"]
            dl = op_place(t["discr"]) if t["k"] == "switch" else None
            d = strip(R.place(dl)) if dl else None
            if d and d[0] == "binop" and d[1] == "Ge" and (is_self_field(d[2], "offset") or strip_casts(d[2]) in stored) and const_val(d[3]) == PAYLOAD:
                e = switch_edges(f, bi)
                full_succ = e.get("1", e["otherwise"])
        if full_succ is not None:
            test_blocks.add(bi)
        if full_succ is not None and S.steps["emit"]:
            g = cfg_without_edges(f, [(bi, full_succ)])
            okt = okt or all(b not in reach(g, [0]) for b in S.steps["emit"])
    ctx.ob(rule, "full-page-test/%s" % short(f.path), okt, "the page is emitted under the test self.offset == 1020")
    # the cursor never rests at 1020 between calls (physical_position = device position + offset would point into the
    # checksum): after every advance of the cursor the full-page test is passed before write returns successfully
    incs = [bi for bi, si, kind, p in offs if kind == "stmt" and const_val(R.rvalue(p)) != 0]
    okrest = bool(incs) and bool(test_blocks)
    for bi in incs:
        if bi in test_blocks:
            continue
        if find_path(f.cfg(), f.cfg().get(bi, []), set(f.return_blocks()), test_blocks | f.err_exit_blocks()) is not None:
            okrest = False
    ctx.ob(rule, "cursor-rests-below-payload/%s" % short(f.path), okrest, "after self.offset was advanced, every successful return of write passes the offset == 1020 test (the cursor is < 1020 whenever write returns)")
    # return value is the number of bytes accepted
    oks = [p for bi, si, cls, p in f.ret_assignments() if cls == "ok"]
    okr = len(oks) >= 1
    for p in oks:
        v = strip(R.rvalue(p))[2][0]
        okr = okr and strip_casts(v)[0] == "call" and strip_casts(v)[1].endswith("::min")
    ctx.ob(rule, "accepted-count/%s" % short(f.path), okr, "write returns the number of bytes copied into the page")


def flush_protocol(ctx, prog, rule):
    f = prog.fn(PWF)
    S = Steps(ctx, f, rule)
    R = Resolver(f)
    S.step("position", calls_where(f, lambda c, t, R: c.endswith("Seek::stream_position")))
    S.step("emit", calls_where(f, lambda c, t, R: c.endswith("Write::write_all") and _is_dev(R.operand(t["args"][0]))))
    pos = S.steps["position"]

    def seek_back(c, t, R):
        if not c.endswith("Seek::seek"):
            return False
        a = strip(R.operand(t["args"][1]))
        return a[0] == "agg" and a[1][2] == "Start" and strip(a[2][0])[0] == "call" and strip(a[2][0])[3] in pos
    S.step("seek-back", calls_where(f, seek_back))
    S.step("device-flush", calls_where(f, lambda c, t, R: c == "std::io::Write::flush" and _is_dev(R.operand(t["args"][0]))))
    S.before("position", "emit")
    S.before("emit", "seek-back")
    S.must_pass("device-flush")
    ok = bool(S.steps["emit"]) and bool(S.steps["seek-back"]) and f.ok_reachable(removed=S.steps["seek-back"], start=S.steps["emit"]) is None
    ctx.ob(rule, "partial-page-path/%s" % short(f.path), ok, "after writing the partial page every successful path seeks back to the page start")
    # guard offset > 0
    # the partial page is emitted only on the outcome "offset != 0" of a test of the cursor
    okg = False
    skipped, guards_seen = [], False
    for bi in f.cfg():
        te = int_test_edges(f, R, bi)
        cut = None
        if te is not None:
            val, cases, others = te
            if is_self_field(strip_casts(val), "offset") and 0 in cases:
                cut = [(bi, s) for s in others] + [(bi, s) for k, s in cases.items() if k != 0]
        else:
            t = f.blocks[bi]["term"]
            dl = op_place(t["discr"]) if t["k"] == "switch" else None
            d = strip(R.place(dl)) if dl else None
            if d and d[0] == "binop" and d[1] == "Gt" and is_self_field(d[2], "offset") and const_val(d[3]) == 0:
                e = switch_edges(f, bi)
                cut = [(bi, e.get("1", e["otherwise"]))]
        if cut and S.steps["emit"]:
            g = cfg_without_edges(f, cut)
            okg = okg or all(b not in reach(g, [0]) for b in S.steps["emit"])
            # and the other way round: with offset > 0 no successful path skips the write (whatever else the buffer holds)
            for _, nz in cut:
                if f.ok_reachable(removed=S.steps["emit"], start=[nz]) is not None:
                    skipped.append(f.file_line(bi))
            guards_seen = True
    ctx.ob(rule, "non-empty-guard/%s" % short(f.path), okg, "the partial page is written when self.offset > 0")
    ctx.ob(rule, "non-empty-always-written/%s" % short(f.path), guards_seen and not skipped, "with self.offset > 0 every successful path of flush writes the page (no further condition): %s" % (skipped or "holds"))
    # flush does not change offset
    offs = field_assignments(f, "paged_writer::PagedWriter", "offset")
    ctx.ob(rule, "offset-unchanged/%s" % short(f.path), not offs, "flush does not modify self.offset (%d assignments)" % len(offs))


def _align_end_inclusive(ctx, prog, rule):
    """PagedReader::align may move the cursor exactly to the end of the logical file (a last packet padded up to the
    end of the last page is legal): on the end-of-file test the *equal* outcome has to be able to succeed"""
    f = prog.fn("paged_reader::PagedReader::<T>::align")
    ctx.fn_seen(f)
    R = Resolver(f)
    verdict, desc = None, "no comparison with log_file_size found"
    for bi in f.cfg():
        ot = order_test(f, R, bi)
        if ot is None:
            continue
        a, op, b, tr, fa = ot
        sides = [tree_str(strip_deep(a)), tree_str(strip_deep(b))]
        if not any(x.endswith("log_file_size") for x in sides):
            continue
        eq_succ = tr if op in ("Ge", "Le") else fa
        okq = f.ok_reachable(start=[eq_succ]) is not None
        verdict = okq if verdict is None else (verdict and okq)
        desc = "%s %s %s: the equal outcome %s" % (sides[0][:50], op, sides[1][:50], "can succeed" if okq else "is rejected")
    ctx.ob(rule, "align-end-inclusive/PagedReader::align", verdict, "PagedReader::align: %s (aligning exactly onto the end of the file must be accepted)" % desc)


def formulas(ctx, prog, rule, side="both"):
    if side in ("both", "writer"):
        _formulas_writer(ctx, prog, rule)
    if side in ("both", "reader"):
        _formulas_reader(ctx, prog, rule)
        _align_end_inclusive(ctx, prog, rule)


def _formulas_writer(ctx, prog, rule):
    # writer: physical_position = stream_position + offset
    f = prog.fn(PW + "physical_position")
    ctx.fn_seen(f)
    R = Resolver(f)
    ok = False
    desc = ""
    for bi, si, cls, p in f.ret_assignments():
        if cls == "ok":
            v = strip(R.rvalue(p))[2][0]
            desc = tree_str(strip_deep(v))
            v = strip(v)
            if v[0] == "binop" and v[1] == "Add":
                parts = [strip_casts(v[2]), strip_casts(v[3])]
                ok = any(x[0] == "call" and x[1].endswith("Seek::stream_position") for x in parts) and any(is_self_field(x, "offset") for x in parts)
    ctx.ob(rule, "formula/PagedWriter::physical_position", ok, "physical_position = %s (must be stream_position() + offset)" % desc)
    # align
    a = prog.fn(PW + "align")
    ctx.fn_seen(a)
    Ra = Resolver(a)
    okw = False
    desc = ""
    for bi, t in a.calls(lambda c, t: c.endswith("Write::write_all")):
        data = slice_of(Ra.operand(t["args"][1]))
        if data is None:
            continue
        base = strip(data[0])
        lo = strip_casts(data[2]) if data[2] else None
        desc = "%s[%s..]" % (tree_str(base), tree_str(lo) if lo else "")
        zeros = base[0] == "agg" and base[1][0] == "array" and len(base[2]) == 4 and all(const_val(x) == 0 for x in base[2]) or (base[0] == "repeat" and const_val(base[1]) == 0 and base[2].strip().startswith("4")) \
            or (base[0] == "const" and isinstance(base[2], tuple) and tuple(base[2]) == (0, 0, 0, 0))
        rem = lo is not None and lo[0] == "binop" and lo[1] == "Rem" and is_self_field(lo[2], "offset") and const_val(lo[3]) == 4
        if not rem and data[1] == "to" and data[3] is not None:
            # the same number of zeros taken from the front: zeros[..4 - offset % 4]
            hi = strip_casts(data[3])
            if hi[0] == "binop" and hi[1] == "Sub" and const_val(hi[2]) == 4:
                r_ = strip_casts(hi[3])
                if r_[0] == "binop" and r_[1] == "Rem" and is_self_field(r_[2], "offset") and const_val(r_[3]) == 4:
                    rem, lo = True, r_
                    data = (data[0], "from", lo, None)
        # guarded by rem != 0
        guard = False
        for b2 in a.cfg():
            tt = a.blocks[b2]["term"]
            if tt["k"] == "switch":
                dl = op_place(tt["discr"])
                d = strip(Ra.place(dl)) if dl else None
                if d and d[0] == "binop" and d[1] in ("Ne", "Eq", "Gt") and const_val(d[3]) == 0 and strip_casts(d[2]) == lo:
                    guard = a.dominates(b2, bi)
                if d is not None and strip_casts(d) == lo:
                    guard = guard or a.dominates(b2, bi)        # match offset % 4 { 0 => .., m => .. }
        okw = bool(zeros) and rem and guard and data[1] == "from" and strip(Ra.operand(t["args"][0])) == ("param", 1)
    ctx.ob(rule, "formula/PagedWriter::align", okw, "align writes %s through write_all on self when offset %% 4 != 0 (4 - offset %% 4 zero bytes)" % desc)
    offs = field_assignments(a, "paged_writer::PagedWriter", "offset")
    ctx.ob(rule, "align-no-direct-offset/PagedWriter::align", not offs, "align never assigns self.offset directly (the padding goes through the page buffer)")


def _formulas_reader(ctx, prog, rule):
    # reader: seek_physical: offset - (offset / page_size) * 4, guarded offset < phy_file_size
    g = prog.fn("paged_reader::PagedReader::<T>::seek_physical")
    ctx.fn_seen(g)
    Rg = Resolver(g)
    offs = field_assignments(g, "paged_reader::PagedReader", "offset")
    ok = len(offs) == 1
    desc = ""
    if ok:
        bi, si, kind, p = offs[0]
        t = strip(Rg.rvalue(p))
        desc = tree_str(strip_deep(t))
        ok = t[0] == "binop" and t[1] == "Sub" and strip_casts(t[2]) == ("param", 2)
        m = strip_casts(t[3]) if ok else None
        ok = ok and m[0] == "binop" and m[1] == "Mul"
        if ok:
            parts = [strip_casts(m[2]), strip_casts(m[3])]
            ok = any(const_val(x) == CRC for x in parts) and any(x[0] == "binop" and x[1] == "Div" and strip_casts(x[2]) == ("param", 2) and is_self_field(x[3], "page_size") for x in parts)
        # no self.offset leaf: the cursor is fully overwritten
        ok = ok and not any(self_field(x) == "offset" for x in leaves(t) if x[0] == "field")
        # error path assigns nothing: the assignment is not reachable from the rejecting branch
        guard = False
        for b2 in g.cfg():
            tt = g.blocks[b2]["term"]
            if tt["k"] == "switch":
                dl = op_place(tt["discr"])
                d = strip(Rg.place(dl)) if dl else None
                if d and d[0] == "binop" and d[1] in ("Ge", "Gt", "Lt", "Le") and strip_casts(d[2]) == ("param", 2) and is_self_field(d[3], "phy_file_size"):
                    e = switch_edges(g, b2)
                    rej = e["otherwise"] if d[1] in ("Ge", "Gt") else e.get("0")
                    guard = bi not in reach(g.cfg(), [rej]) and g.dominates(b2, bi)
        ok = ok and guard
        # every successful return has repositioned the cursor: no shortcut that keeps the old one
        ok = ok and g.ok_reachable(removed=[bi]) is None
    ctx.ob(rule, "formula/PagedReader::seek_physical", ok, "offset <- %s (must be pos - (pos / page_size) * 4, assigned only when pos < phy_file_size, with no dependence on the old cursor)" % desc)
    r = prog.fn("paged_reader::PagedReader::<T>::align")
    ctx.fn_seen(r)
    Rr = Resolver(r)
    offs = field_assignments(r, "paged_reader::PagedReader", "offset")
    okr = len(offs) == 1
    desc = ""
    if okr:
        bi, si, kind, p = offs[0]
        t = strip(Rr.rvalue(p))
        desc = tree_str(strip_deep(t))
        okr = t[0] == "binop" and t[1] == "Add" and is_self_field(t[2], "offset")
        sk = strip_casts(t[3]) if okr else None
        okr = okr and sk[0] == "binop" and sk[1] == "Sub" and const_val(sk[2]) == 4
        rem = strip_casts(sk[3]) if okr else None
        okr = okr and rem[0] == "binop" and rem[1] == "Rem" and is_self_field(rem[2], "offset") and const_val(rem[3]) == 4
    ctx.ob(rule, "formula/PagedReader::align", okr, "offset <- %s (must be offset + (4 - offset %% 4), under offset %% 4 != 0)" % desc)


def cursor_writers(ctx, prog, rule, side="both"):
    """explicit table of the functions that may assign the page cursors; their arithmetic is
    what the formula rules verify — a new writer is unverified arithmetic."""
    table = {
        ("paged_writer::PagedWriter", "offset"): {PW + "new", PW + "physical_seek", PWW},
        ("paged_reader::PagedReader", "offset"): {"paged_reader::PagedReader::<T>::new", "paged_reader::PagedReader::<T>::seek_physical", "paged_reader::PagedReader::<T>::align", PR["serve"]},
    }
    for (adt, fld), allowed in table.items():
        if side != "both" and ("PagedReader" in adt) != (side == "reader"):
            continue
        writers = set()
        for p, f in prog.fns.items():
            if field_assignments(f, adt, fld):
                writers.add(p)
            for bi in f.cfg():
                for st in f.blocks[bi]["stmts"]:
                    rv = st["rv"]
                    if rv["k"] == "aggregate" and rv["kind"].get("agg") == "adt" and rv["kind"]["adt"] == adt:
                        writers.add(p)
        extra = sorted(writers - allowed)
        ctx.ob(rule, "cursor-writers/%s.%s" % (adt.split("::")[-1], fld), not extra and writers == allowed,
               "functions assigning %s.%s: %s; verified table: %s%s" % (adt, fld, sorted(short(w) for w in writers), sorted(short(w) for w in allowed),
                                                                       ("; UNVERIFIED cursor arithmetic in " + ", ".join(extra)) if extra else ""))


def read_current_page_shape(ctx, prog, rule):
    import io_rules
    f = prog.fn(RCP)
    one = Program({"crate": prog.crate, "fns": [f.d], "adts": []})
    io_rules.raw_transfer_discipline(ctx, one, rule, floors=False)
    S = Steps(ctx, f, rule)
    zf = S.step("zero-fill", calls_where(f, lambda c, t, R: c.endswith("::fill") and const_val(R.operand(t["args"][1])) == 0))
    # when the device reports end of file (count 0) the rest of the page is zero-filled; a completely filled page needs none
    eof_edges = []
    for bi, t in f.calls(lambda c, t: io_rules._is_raw_transfer(c)):
        eof_edges += io_rules.short_transfer_loop(f, bi)["zero_succs"]
    ok_fill = bool(zf) and bool(eof_edges) and all(f.ok_reachable(removed=zf, start=[e_]) is None for e_ in eof_edges)
    ctx.ob(rule, "on-every-ok-path/%s/zero-fill" % short(f.path), ok_fill, "after the device reported end of file every successful path zero-fills the rest of the page buffer", where=f.file_line(zf[0]) if zf else None)
    R = Resolver(f)
    # the loop starts from the whole page buffer: the destination of the raw read is (a suffix of) page_buffer[..]
    ok = False
    for bi, t in f.calls(lambda c, t: c.endswith("Read::read") and len(t["args"]) == 2):
        tr = R.operand(t["args"][1])
        for alt in (tr[1] if tr[0] == "phi" else (tr,)):
            x = strip(alt)
            while x[0] == "cast":
                x = strip(x[2])
            sl = slice_of(alt)
            if is_self_field(x, "page_buffer") or (sl and is_self_field(sl[0], "page_buffer") and sl[1] == "full"):
                ok = True
    ctx.ob(rule, "whole-buffer/%s" % short(f.path), ok, "read_current_page fills &mut page_buffer[..] (the whole page)")


def constants_agree(ctx, prog, rule):
    """1024 / 1020 / 4 across paged_writer.rs, header.rs and the reader's page_size - 4"""
    vals = collections.Counter()
    for path in (PWW, PWF, PW + "physical_seek"):
        f = prog.fn(path)
        for bi in f.cfg():
            for st in f.blocks[bi]["stmts"]:
                for o in operands_of_rvalue(st["rv"]):
                    v = const_int(o)
                    if v is not None and 900 <= v <= 1200:
                        vals[v] += 1
    d = prog.fn("<header::Header as std::default::Default>::default")
    t = strip(Resolver(d).local(0))
    hp = const_val(dict(zip(t[1][3], t[2])).get("page_size")) if t[0] == "agg" else None
    n = prog.fn(PW + "new")
    buf_ty = [st["rv"]["n"].strip() for bi in n.cfg() for st in n.blocks[bi]["stmts"] if st["rv"]["k"] == "repeat"]
    # every page-sized constant of the write path is one of the two (how often each occurs depends on the spelling)
    others = sorted(v for v in vals if v not in (PAGE, PAYLOAD))
    ok = vals[PAGE] >= 1 and vals[PAYLOAD] >= 1 and not others and hp == PAGE and len(buf_ty) == 1 and buf_ty[0].startswith("1024")
    ctx.ob(rule, "constants/page-1024-payload-1020", ok, "writer uses 1024 x%d and 1020 x%d and no other constant between 900 and 1200 (%s), header page_size=%s, page_buffer length %s; reader uses page_size - 4 (C07-R3/R4)" % (vals[PAGE], vals[PAYLOAD], others, hp, buf_ty), nontrivial=False)
