"""Writer-side validation rules (C10-R4, R5)."""
from mirlib import *
from proto import *
from cache_rules import strip_casts, const_val
from simple_rules import assume_cfg, leaf_name
from bounds_rules import enum_const, name_tests, _eq_consts

PCW = "pc_writer::PointCloudWriter::<'a, T>::"
VARIANTS = ["Single", "Double", "ScaledInteger", "Integer"]


def add_point_validation(ctx, prog, rule):
    f = prog.fn(PCW + "add_point")
    ctx.fn_seen(f)
    R = Resolver(f, max_depth=24)
    # (i) arity guard
    oka = False
    for bi in f.cfg():
        t = f.blocks[bi]["term"]
        if t["k"] != "switch":
            continue
        dl = op_place(t["discr"])
        d = strip(R.place(dl)) if dl else None
        if d and d[0] == "binop" and d[1] in ("Ne", "Eq"):
            a, b = strip(d[2]), strip(d[3])
            if a[0] == "call" and b[0] == "call" and a[1].endswith("::len") and b[1].endswith("::len"):
                srcs = {tree_str(strip(a[2][0])), tree_str(strip(b[2][0]))}
                if srcs == {"arg2", "arg1.prototype"}:
                    e = switch_edges(f, bi)
                    bad = e["otherwise"] if d[1] == "Ne" else e.get("0")
                    oka = f.ok_reachable(start=[bad]) is None and bi == 0 or (f.ok_reachable(start=[bad]) is None and all(f.dominates(bi, b2) for b2, t2 in f.calls(lambda c, t: c.endswith("push_back"))))
    ctx.ob(rule, "arity-guard/add_point", oka, "a point whose number of values differs from the prototype length is rejected before anything else happens")
    # (ii)/(iii) per (data type, value) variant pair: the first loop either rejects or continues
    loops = natural_loops(f)
    rej = [bi for bi, t in f.calls(lambda c, t: c == "error::Error::invalid")]
    # the validation loop: the innermost loop whose header dominates a rejection that leaves it
    val_loop = None
    for h, body in loops.items():
        if any(r not in body and f.dominates(h, r) and not any(f.dominates(h2, r) and h2 != h and h2 in loops and f.dominates(h, h2) for h2 in loops) for r in rej):
            if val_loop is None or len(body) < len(loops[val_loop]):
                val_loop = h
    if val_loop is None:
        ctx.ob(rule, "validation-loop/add_point", False, "no loop of add_point can reach a rejection: values are not validated per prototype entry")
        return
    body = loops[val_loop]
    entry = [s for s in f.cfg().get(val_loop, []) if s in body]

    import elems

    def _root_is(e, what):
        if e is None:
            return False
        r = strip(e[0])
        while r[0] == "cast":
            r = strip(r[2])
        if what == "values":
            return r == ("param", 2)
        return r[0] == "field" and r[2] == "prototype" and strip(r[1]) == ("param", 1)

    def is_dt(s):
        e = elems.elem_of(s)
        return _root_is(e, "prototype") and e[1] == ["data_type"]

    def is_val(s):
        e = elems.elem_of(s)
        return _root_is(e, "values") and e[1] == []

    def side(t):
        """set of ('val', V) for the integer payload of a value, ('min'|'max', V) for a limit of the entry's data type
        (an or-pattern arm merges the variants into one phi)"""
        if t[0] == "phi":
            out = set()
            for a in t[1]:
                out |= side(a)
            return out
        x = side1(t)
        return {x} if x else set()

    def side1(t):
        e = elems.elem_of(t)
        if _root_is(e, "values") and len(e[1]) == 1 and e[1][0].endswith(".0"):
            return ("val", e[1][0].split(".")[0])
        if _root_is(e, "prototype") and len(e[1]) == 2 and e[1][0] == "data_type" and e[1][1].split(".")[-1] in ("min", "max"):
            return (e[1][1].split(".")[-1], e[1][1].split(".")[0])
        return None
    table = {}
    range_ok = {}
    # comparisons value < min / value > max
    cmp_blocks = []
    for bi in body:
        t = f.blocks[bi]["term"]
        if t["k"] == "switch":
            dl = op_place(t["discr"])
            d = strip(R.place(dl)) if dl else None
            if d and d[0] == "call" and d[1].rsplit("::", 1)[-1] in ("lt", "gt", "le", "ge"):
                cmp_blocks.append((bi, d[1].rsplit("::", 1)[-1], [side(x) for x in d[2][:2]]))
            elif d and d[0] == "binop" and d[1] in ("Lt", "Gt", "Le", "Ge"):
                cmp_blocks.append((bi, d[1].lower(), [side(d[2]), side(d[3])]))
            elif d and d[0] == "call" and d[1].rsplit("::", 1)[-1] == "contains" and len(d[2]) == 2:
                # `(min..=max).contains(&value)`: both comparisons in one test; the value 0 edge is "out of range"
                rng = strip(d[2][0])
                ends = None
                if rng[0] == "call" and rng[1].endswith("RangeInclusive::<Idx>::new") and len(rng[2]) == 2:
                    ends = rng[2]
                elif rng[0] == "agg" and rng[1][0] == "adt" and "RangeInclusive" in str(rng[1][1]) and len(rng[2]) >= 2:
                    ends = rng[2][:2]
                if ends is not None:
                    cmp_blocks.append((bi, "contains", [side(strip(ends[0])), side(strip(ends[1])), side(strip(d[2][1]))]))
    for di, dv in enumerate(VARIANTS):
        for vi, vv in enumerate(VARIANTS):
            g = assume_cfg(f, [(is_dt, di), (is_val, vi)])
            gb = {b: [s for s in ss if s in body] for b, ss in g.items() if b in body}
            cont = find_path(gb, entry, {val_loop}, set())
            table[(dv, vv)] = "continues" if cont else "rejected"
            if dv == vv and dv in ("Integer", "ScaledInteger"):
                lo = [b for b, op, sides in cmp_blocks if any(("min", dv) in x for x in sides) and any(("val", dv) in x for x in sides)]
                hi = [b for b, op, sides in cmp_blocks if any(("max", dv) in x for x in sides) and any(("val", dv) in x for x in sides)]
                both = bool(lo) and bool(hi)
                # every path of this variant pair through the loop body passes both comparisons ...
                pass_lo = both and find_path(gb, entry, {val_loop}, set(lo)) is None
                pass_hi = both and find_path(gb, entry, {val_loop}, set(hi)) is None
                # ... and the out-of-range edges cannot continue the loop
                out_ok = both
                ops_ = {b_: op_ for b_, op_, _ in cmp_blocks}
                for b in lo + hi:
                    e = switch_edges(f, b)
                    tr = e["otherwise"]      # `value < min` / `value > max` is true
                    if ops_.get(b) == "contains":
                        tr = e.get("0", e["otherwise"])          # not contained
                    if tr in gb and find_path(gb, [tr], {val_loop}, set()) is not None:
                        out_ok = False
                range_ok[dv] = (pass_lo, pass_hi, out_ok)
    want = {(a, b): ("continues" if a == b else "rejected") for a in VARIANTS for b in VARIANTS}
    ctx.ob(rule, "type-table/add_point", table == want, "(prototype data type, value variant) -> outcome of the validation loop: %s (a value must be accepted exactly when its variant equals the data type)" % {"%s,%s" % k: v for k, v in table.items() if v != want[k]} if table != want else "(data type, value variant): accepted exactly on the diagonal (16 combinations)")
    for dv in ("Integer", "ScaledInteger"):
        r = range_ok.get(dv, (False, False, False))
        ctx.ob(rule, "range-check/add_point/%s" % dv, all(r), "%s values: every accepting path compares the value with the record's minimum (%s) and maximum (%s), and the out-of-range branches cannot continue (%s)" % (dv, r[0], r[1], r[2]))
    # the store happens after the validation loop has finished
    stores = [bi for bi, t in f.calls(lambda c, t: c.endswith("push_back"))]
    oks = bool(stores) and all(s not in body and find_path(f.cfg(), [s], set(rej), set()) is None for s in stores)
    ctx.ob(rule, "store-after-validation/add_point", oks, "the point is stored only after the validation loop, no rejection is reachable afterwards")


def prototype_validation(ctx, prog, rule):
    """all-or-nothing triples and state attribute rules of validate_*"""
    groups = {
        "pc_writer::validate_cartesian": (["CartesianX", "CartesianY", "CartesianZ"], 3, "CartesianInvalidState", (0, 2)),
        "pc_writer::validate_spherical": (["SphericalAzimuth", "SphericalElevation", "SphericalRange"], 3, "SphericalInvalidState", (0, 2)),
        "pc_writer::validate_color": (["ColorBlue", "ColorGreen", "ColorRed"], 3, "IsColorInvalid", (0, 1)),
    }
    for path, (names, total, state, rng) in groups.items():
        f = prog.fn(path)
        ctx.fn_seen(f)
        R = Resolver(f, max_depth=20)
        # presence tests: calls contains(prototype, Name) whose true edge leads to `counter += 1`
        steps = []
        for bi, t in f.calls(lambda c, t: c == "pc_writer::contains"):
            nm = enum_const(R.operand(t["args"][1]))
            be = bool_edges(f, bi)
            if not be or nm is None:
                continue
            sw, tr, fa = be
            # an increment by one in the exclusive region of the true edge
            r1 = reach(f.cfg(), [tr])
            r2 = reach(f.cfg(), [fa])
            inc = False
            for b in r1 - r2:
                for st in f.blocks[b]["stmts"]:
                    rv = st["rv"]
                    if rv["k"] == "binop" and rv["op"] == "AddWithOverflow" and const_int(rv["b"]) == 1:
                        inc = True
            if inc:
                steps.append(nm)
        # the decision: counter != 0 && counter != total -> error
        dec = {}
        for bi in f.cfg():
            t = f.blocks[bi]["term"]
            if t["k"] == "switch":
                dl = op_place(t["discr"])
                d = strip(R.place(dl)) if dl else None
                if d and d[0] == "binop" and d[1] in ("Ne", "Eq") and const_val(d[3]) in (0, total) and strip(d[2])[0] in ("phi", "local", "binop"):
                    dec[const_val(d[3])] = d[1]
        if not steps:
            # the same count spelled as [N1, N2, N3].into_iter().filter(|n| <lookup of n in the prototype>).count(): the
            # names (not the records) are iterated, so each name counts once however often it occurs in the prototype
            import names as nm
            for bi in f.cfg():
                t = f.blocks[bi]["term"]
                if t["k"] != "switch":
                    continue
                dl = op_place(t["discr"])
                d = strip(R.place(dl)) if dl else None
                if not (d and d[0] == "binop" and d[1] in ("Ne", "Eq") and const_val(d[3]) in (0, total)):
                    continue
                cnt = strip(d[2])
                while cnt[0] == "cast":
                    cnt = strip(cnt[2])
                if cnt[0] == "call" and cnt[1].endswith("::count") and cnt[2]:
                    flt = strip(cnt[2][0])
                    if flt[0] == "call" and flt[1].endswith("::filter") and len(flt[2]) == 2:
                        arr = nm._array_consts(flt[2][0])
                        looked = nm.lookup_names(prog, f, flt)
                        if arr and looked and sorted(looked) == sorted(arr) and len(set(arr)) == len(arr):
                            steps = list(arr)
                            dec[const_val(d[3])] = d[1]
        ok = sorted(steps) == sorted(names) and set(dec) == {0, total}
        if not ok:
            # the decision in any spelling (`match n { 0 | 3 => .., _ => Err }`, `n != 0 && n != 3`): assume the
            # count and see whether a successful return is still reachable
            import names as nm

            def count_tree(tv):
                cnt = strip(tv)
                while cnt[0] == "cast":
                    cnt = strip(cnt[2])
                if cnt[0] == "call" and cnt[1].endswith("::count") and cnt[2]:
                    flt = strip(cnt[2][0])
                    if flt[0] == "call" and flt[1].endswith("::filter") and len(flt[2]) == 2:
                        arr = nm._array_consts(flt[2][0])
                        looked = nm.lookup_names(prog, f, flt)
                        if arr and looked and sorted(looked) == sorted(arr) and len(set(arr)) == len(arr):
                            return cnt, list(arr)
                return None, None
            tests = []
            arr_found = None
            for bi in f.cfg():
                te = int_test_edges(f, R, bi)
                if te is None:
                    continue
                cnt, arr = count_tree(te[0])
                if cnt is not None:
                    tests.append((bi, te))
                    arr_found = arr
            if tests and arr_found and sorted(arr_found) == sorted(names):
                accepted = set()
                for k in range(total + 1):
                    removed = set()
                    for bi, (val, cases, others) in tests:
                        succs = set(f.cfg().get(bi, []))
                        keep = {cases[k]} if k in cases else set(others)
                        for s_ in succs - keep:
                            removed.add((bi, s_))
                    g_ = cfg_without_edges(f, removed)
                    if find_path(g_, [0], set(f.return_blocks()), f.err_exit_blocks()) is not None:
                        accepted.add(k)
                steps = list(arr_found)
                dec = {k: "accepted" for k in sorted(accepted)}
                ok = accepted == {0, total}
        ctx.ob(rule, "all-or-nothing/%s" % short(path), ok, "%s counts presence tests of %s (each name once, +1 each) and rejects counts other than 0 and %d: tests %s, decisions %s" % (short(path), names, total, sorted(steps), dec))
        # state attribute: requires the group and Integer{0..k}
        oks = False
        for bi, t in f.calls(lambda c, t: c == "pc_writer::get"):
            if enum_const(R.operand(t["args"][1])) == state:
                oks = True
        consts = set()
        for bi in f.cfg():
            t = f.blocks[bi]["term"]
            if t["k"] == "switch":
                dl = op_place(t["discr"])
                d = strip(R.place(dl)) if dl else None
                if d and d[0] == "field" and ("Integer.min" in leaf_name(d) or "Integer.max" in leaf_name(d)):
                    for v, tgt in t["targets"]:
                        consts.add((leaf_name(d).rsplit(".", 1)[-1], int(v)))
        want = {("min", rng[0]), ("max", rng[1])}
        ctx.ob(rule, "state-range/%s" % short(path), oks and consts == want, "%s must be Integer{min: %d, max: %d}: matched constants %s" % (state, rng[0], rng[1], sorted(consts)))
    # validate_return: both or none
    f = prog.fn("pc_writer::validate_return")
    ctx.fn_seen(f)
    R = Resolver(f, max_depth=20)
    got = sorted(enum_const(R.operand(t["args"][1])) or "?" for bi, t in f.calls(lambda c, t: c == "pc_writer::get"))
    dec = set()
    for bi in f.cfg():
        t = f.blocks[bi]["term"]
        if t["k"] == "switch":
            dl = op_place(t["discr"])
            d = strip(R.place(dl)) if dl else None
            if d and d[0] == "binop" and d[1] in ("Ne", "Eq") and const_val(d[3]) in (0, 2) and strip(d[2])[0] in ("phi", "local", "binop"):
                dec.add(const_val(d[3]))
    if dec != {0, 2}:
        # `count.is_some() != index.is_some()` -> error: presence of exactly one of the two is rejected
        for bi in f.cfg():
            t = f.blocks[bi]["term"]
            if t["k"] != "switch":
                continue
            dl = op_place(t["discr"])
            d = strip(R.place(dl)) if dl else None
            if d and d[0] == "binop" and d[1] in ("Ne", "Eq", "BitXor"):
                sides = [strip(d[2]), strip(d[3])]
                pres = []
                for x in sides:
                    if x[0] == "call" and x[1].rsplit("::", 1)[-1] in ("is_some", "is_none") and x[2]:
                        g_ = strip(x[2][0])
                        if g_[0] == "call" and g_[1] == "pc_writer::get":
                            pres.append((enum_const(g_[2][1]), x[1].rsplit("::", 1)[-1]))
                    elif x[0] == "call" and x[1] == "pc_writer::contains":
                        pres.append((enum_const(x[2][1]), "is_some"))
                if sorted(p_[0] or "?" for p_ in pres) == ["ReturnCount", "ReturnIndex"] and pres[0][1] == pres[1][1]:
                    e = switch_edges(f, bi)
                    differ = e.get("0") if d[1] == "Eq" else e.get("1", e["otherwise"])
                    if differ is not None and f.ok_reachable(start=[differ]) is None:
                        dec = {0, 2}
    ctx.ob(rule, "all-or-nothing/validate_return", got == ["ReturnCount", "ReturnIndex"] and dec == {0, 2}, "ReturnCount and ReturnIndex must appear together: presence tests %s, accepted counts %s" % (got, sorted(dec)))
    # validate_prototype calls all of them and requires coordinates
    v = prog.fn(PCW + "validate_prototype")
    ctx.fn_seen(v)
    S = Steps(ctx, v, rule)
    for n in ("validate_cartesian", "validate_spherical", "validate_color", "validate_return"):
        S.step(n, calls_where(v, lambda c, t, R, n=n: c == "pc_writer::" + n))
        S.must_pass(n)
    # add_pointcloud: extension validation, then prototype validation dominate construction
    a = prog.fn("e57_writer::E57Writer::<T>::add_pointcloud")
    S2 = Steps(ctx, a, rule)
    S2.step("extension-validation", calls_where(a, lambda c, t, R: c == "extension::Extension::validate_prototype"))
    S2.step("construction", calls_where(a, lambda c, t, R: c == PCW + "new"))
    S2.before("extension-validation", "construction")
    n = prog.fn(PCW + "new")
    S3 = Steps(ctx, n, rule)
    S3.step("prototype-validation", calls_where(n, lambda c, t, R: c == PCW + "validate_prototype"))
    S3.step("capacity", calls_where(n, lambda c, t, R: c == "pc_writer::get_max_packet_points"))
    S3.step("first-write", calls_where(n, lambda c, t, R: c == "cv_section::CompressedVectorSectionHeader::write" or c.endswith("physical_position")))
    S3.before("prototype-validation", "first-write")
    S3.before("capacity", "first-write")
    for name in ("prototype-validation", "capacity"):
        for b in S3.steps.get(name, []):
            ctx.ob(rule, "checked/%s/%s" % (short(n.path), name), branch_of_call(n, b) is not None, "result of %s is propagated with ?" % name, where=n.file_line(b))
    # Extension::validate_prototype: every record with an extension name has both its namespace and its name checked,
    # and an unregistered namespace is rejected
    h = prog.fn("extension::Extension::validate_prototype")
    ctx.fn_seen(h)
    Rh = Resolver(h)
    variants = [v["name"] for v in prog.adt("record::RecordName")["variants"]]
    uidx = str(variants.index("Unknown")) if "Unknown" in variants else None
    loops_h = natural_loops(h)
    okx, why = False, "no test of the record name for RecordName::Unknown found"
    for bi in h.cfg():
        t = h.blocks[bi]["term"]
        if t["k"] != "switch" or uidx is None:
            continue
        dl = op_place(t["discr"])
        d = strip(Rh.place(dl)) if dl else None
        if not (d and d[0] == "discr" and strip(d[1])[0] == "field" and strip(d[1])[2] == "name"):
            continue
        e = switch_edges(h, bi)
        u = e.get(uidx)
        if u is None:
            continue
        vcalls = [(b2, tree_str(strip_deep(Rh.operand(tt["args"][0])))) for b2, tt in h.calls(lambda c, t: c == "extension::Extension::validate_name")]
        checked = {("namespace" if "namespace" in s_ else "name" if s_.endswith(".name") or "Unknown.name" in s_ else s_): b2 for b2, s_ in vcalls}
        heads = [hd for hd, body in loops_h.items() if bi in body]
        targets = set(heads) | set(h.return_blocks())
        bad = h.err_exit_blocks()
        missing = []
        for part in ("namespace", "name"):
            cb = checked.get(part)
            if cb is None or branch_of_call(h, cb) is None or find_path(h.cfg(), [u], targets, bad | {cb}) is not None:
                missing.append(part)
        # the registration test: an Unknown record whose namespace matches no registered extension cannot pass
        import elems
        reg = False
        for b2, tt in h.calls(lambda c, t: c.rsplit("::", 1)[-1] in ("any", "all") and len(t["args"]) == 2):
            # any(|e| e.namespace == ns) must hold / all(|e| e.namespace != ns) must not: the "not registered" edge rejects
            cl = strip(Rh.operand(tt["args"][1]))
            pol = None
            if cl[0] == "agg" and cl[1][0] == "closure" and cl[1][1] in prog.fns:
                cmp_ = [callee_of(t3).rsplit("::", 1)[-1] for b3, t3 in prog.fns[cl[1][1]].calls(lambda c, t: c.rsplit("::", 1)[-1] in ("eq", "ne"))]
                pol = cmp_[0] if len(cmp_) == 1 else None
            which = callee_of(tt).rsplit("::", 1)[-1]
            for sw, tr, fa in bool_switches(h, b2):
                unregistered = fa if (which, pol) == ("any", "eq") else (tr if (which, pol) == ("all", "ne") else None)
                if unregistered is not None and find_path(h.cfg(), [unregistered], targets, bad) is None:
                    reg = True
        okx = not missing and reg
        why = "unchecked on some path: %s; unregistered namespace rejected: %s" % (missing or "none", reg)
    ctx.ob(rule, "extension-names-validated/Extension::validate_prototype", okx, "every extension attribute has its namespace and its name validated and its namespace registered (%s)" % why)
    # register_extension: name validation and duplicate check dominate the push
    r = prog.fn("e57_writer::E57Writer::<T>::register_extension")
    S4 = Steps(ctx, r, rule)
    S4.step("name-validation", calls_where(r, lambda c, t, R: c == "extension::Extension::validate_name"))
    dup = calls_where(r, lambda c, t, R: c.rsplit("::", 1)[-1] in ("any", "find", "position") and t["args"] and "extensions" in tree_str(R.operand(t["args"][0])))
    if not dup:
        # the same test as an explicit loop: `for e in &self.extensions { if e.namespace == extension.namespace { return Err } }`
        import elems
        Rr = Resolver(r)
        for bi, t in r.calls(lambda c, t: c.rsplit("::", 1)[-1] in ("eq", "ne") and len(t["args"]) == 2):
            sides = [strip(Rr.operand(a)) for a in t["args"][:2]]
            es = [elems.elem_of(x) for x in sides]
            is_elem = [e is not None and self_field(strip(e[0])) == "extensions" and e[1] == ["namespace"] for e in es]
            is_new = [x[0] == "field" and x[2] == "namespace" and strip(x[1]) == ("param", 2) for x in sides]
            if (is_elem[0] and is_new[1]) or (is_elem[1] and is_new[0]):
                for sw, tr, fa in bool_switches(r, bi):
                    equal = tr if callee_of(t).endswith("eq") else fa
                    pushes_ = [b for b, tt in r.calls(lambda c, t: c.endswith("Vec::<T, A>::push"))]
                    if r.ok_reachable(start=[equal]) is None and not any(p_ in reach(r.cfg(), [equal]) for p_ in pushes_):
                        e0 = es[0] if is_elem[0] else es[1]
                        if e0[2][0] == "next" and e0[2][1] is not None:
                            dup.append(e0[2][1])        # the loop's next(): every path to the push runs the loop
    S4.step("duplicate-test", dup)
    S4.step("push", calls_where(r, lambda c, t, R: c.endswith("Vec::<T, A>::push")))
    S4.before("name-validation", "push")
    S4.before("duplicate-test", "push")


def _presence_tests(prog, f, R):
    """switch blocks of f that branch on whether the prototype contains a record name: (block, name, successor when
    present, successor when absent).  A presence test is a call with one RecordName constant argument whose callee
    compares the elements' names with its parameter (contains / get / a local closure), tested as bool or Option."""
    import names as nm
    out = []
    for bi in f.cfg():
        t = f.blocks[bi]["term"]
        if t["k"] != "switch" or op_place(t["discr"]) is None:
            continue
        d = strip(R.place(op_place(t["discr"])))
        neg = False
        while d[0] == "unop" and d[1] == "Not":
            neg = not neg
            d = strip(d[2])
        kind = "bool"
        if d[0] == "discr":
            kind, d = "option", strip(d[1])
        if d[0] != "call":
            continue
        consts = []
        for a in d[2]:
            a = strip(a)
            parts = a[2] if a[0] == "agg" and a[1][0] == "tuple" else (a,)
            for p_ in parts:
                v = enum_const(p_)
                if v is not None and (strip(p_)[0] == "const" or "RecordName" in str(strip(p_)[1])):
                    consts.append(v)
        if len(consts) != 1:
            continue
        looked = nm.lookup_names(prog, f, d)
        if not looked:
            continue
        e = switch_edges(f, bi)
        if kind == "bool":
            present, absent = e.get("1", e["otherwise"]), e.get("0")
            if "0" not in e:
                continue
            if neg:
                present, absent = absent, present
        else:
            present, absent = e.get("1", e["otherwise"]), e.get("0", e["otherwise"])
        out.append((bi, consts[0], present, absent))
    return out


def flag_value_pairs(ctx, prog, rule):
    """`Is<X>Invalid` may only be used together with `<X>`, and that pair alone is acceptable: decided per pair on the
    validator's flow graph pruned under presence assumptions (whatever spelling the lookups have)"""
    f = prog.fn(PCW + "validate_prototype")
    ctx.fn_seen(f)
    R = Resolver(f, max_depth=24)
    tests = _presence_tests(prog, f, R)
    variants = [v["name"] for v in prog.adt("record::RecordName")["variants"]]
    pairs = [(v, v[2:-7]) for v in variants if v.startswith("Is") and v.endswith("Invalid") and v[2:-7] in variants]
    universe = {n for p in pairs for n in p}
    rets, errs = set(f.return_blocks()), f.err_exit_blocks()

    def ok_reachable(assume):
        removed = set()
        for bi, name, present, absent in tests:
            if name in assume:
                drop = absent if assume[name] else present
                keep = present if assume[name] else absent
                if drop is not None and drop != keep:
                    removed.add((bi, drop))
        g = cfg_without_edges(f, removed)
        return find_path(g, [0], rets, errs) is not None
    n = 0
    for flag, value in pairs:
        tested = {name for _, name, _, _ in tests}
        if flag not in tested:
            ctx.ob(rule, "flag-requires-value/%s" % flag, None if not tests else False, "no presence test of %s found in validate_prototype (%d presence tests recognised)" % (flag, len(tests)))
            continue
        n += 1
        alone = ok_reachable({flag: True, value: False})
        others = {x: False for x in universe - {flag, value}}
        both = ok_reachable(dict(others, **{flag: True, value: True}))
        ctx.ob(rule, "flag-requires-value/%s" % flag, (not alone) and both,
               "%s without %s is %s; %s together with %s (and none of %s) is %s" % (flag, value, "ACCEPTED" if alone else "rejected", flag, value, sorted(others), "accepted" if both else "REJECTED"))
    ctx.floor(rule, "invalid-flag / value pairs decided", n, 2)
