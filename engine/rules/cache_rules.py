"""Page-cache typestate rules (C07-R1..R4, R7; reused by C17-R4) — parameterised so that the
same code runs on the fixture crate /verif/controls."""
from mirlib import *

PR = dict(
    adt="paged_reader::PagedReader",
    impl_self="paged_reader::PagedReader<T>",
    key="page_num", buf="page_buffer", cursor="offset", size="page_size", pages="pages",
    load="paged_reader::PagedReader::<T>::read_page",
    serve="<paged_reader::PagedReader<T> as std::io::Read>::read",
    checksum=4,
)

TRANSPARENT_BUF = ("::deref_mut", "::deref", "::as_mut_slice", "::as_mut", "::index_mut", "::index", "::borrow_mut", "::split_at_mut", "::split_at", "::as_slice")


def strip_casts(t):
    t = strip(t)
    while t[0] == "cast":
        t = strip(t[2])
    return t


def is_self_field(t, name):
    return self_field(strip_casts(t)) == name


def const_val(t):
    t = strip_casts(t)
    if t[0] == "const" and isinstance(t[2], int):
        return t[2]
    return None


def is_payload_size(t, spec):
    """(self.page_size - CHECKSUM) possibly cast"""
    t = strip_casts(t)
    return (t[0] == "binop" and t[1] == "Sub" and is_self_field(t[2], spec["size"]) and const_val(t[3]) == spec["checksum"])


def slice_of(t):
    """decode Index::index(base, range) -> (base tree, kind, lo, hi) else None; a slice of a slice is composed:
    x[..b][a..] = x[a..b], x[a..][..n] = x[a..a+n]"""
    r = _slice_of1(t)
    if r is None:
        return None
    base, kind, lo, hi = r
    inner = _slice_of1(base)
    if inner is not None:
        b0, k0, lo0, hi0 = inner
        if k0 == "to" and kind == "from":
            return (b0, "range", lo, hi0)
        if k0 == "from" and kind == "to":
            return (b0, "range", lo0, ("binop", "Add", lo0, hi))
        if k0 == "full":
            return (b0, kind, lo, hi)
        if kind == "full":
            return (b0, k0, lo0, hi0)
    return r


def _slice_of1(t):
    t = strip(t)
    # x.split_at(n).0 == x[..n], x.split_at(n).1 == x[n..]  (also split_at_mut)
    if t[0] == "field" and t[2] in ("0", "1"):
        c = strip(t[1])
        if c[0] == "call" and (c[1].endswith("::split_at") or c[1].endswith("::split_at_mut")) and len(c[2]) == 2:
            base = strip(c[2][0])
            return (base, "to", None, c[2][1]) if t[2] == "0" else (base, "from", c[2][1], None)
    if t[0] != "call" or not (t[1].endswith("::index") or t[1].endswith("::index_mut")) or len(t[2]) != 2:
        return None
    base, rng = strip(t[2][0]), strip(t[2][1])
    if rng[0] != "agg" or rng[1][0] != "adt":
        return None
    name = rng[1][2]
    ops = rng[2]
    if name == "RangeFrom":
        return (base, "from", ops[0], None)
    if name == "Range":
        return (base, "range", ops[0], ops[1])
    if name == "RangeTo":
        return (base, "to", None, ops[0])
    if name == "RangeFull":
        return (base, "full", None, None)
    return None


def clobber_points(fn, spec):
    """blocks whose call receives (a value derived from) &mut self.buf and is not a pure re-borrow."""
    pts = []
    for bi, si, st in field_mut_borrows(fn, spec["adt"], spec["buf"]):
        locs, sinks = flows_through(fn, st["place"]["local"])
        for sb, what, t in sinks:
            if what != "call":
                continue
            c = callee_of(t)
            if any(c.endswith(s) for s in TRANSPARENT_BUF):
                continue
            if sb not in pts:
                pts.append(sb)
    # direct partial writes self.buf[i] = x
    for bi, si, kind, payload in field_partial_writes(fn, spec["adt"], spec["buf"]):
        if bi not in pts:
            pts.append(bi)
    return pts


def flows_through(fn, start):
    """like mirlib.flows, but also follows re-borrow helper calls (deref_mut, index_mut, ...)."""
    seen = {start}
    work = [start]
    sinks = []
    while work:
        n = work.pop()
        for bi, si, x in uses_of_local(fn, n):
            if si == "term":
                if x["k"] == "call":
                    sinks.append((bi, "call", x))
                    c = callee_of(x)
                    if any(c.endswith(s) for s in TRANSPARENT_BUF):
                        d = x["dest"]["local"]
                        if d not in seen:
                            seen.add(d)
                            work.append(d)
            else:
                d = x["place"]["local"]
                if not x["place"]["proj"] and d not in seen:
                    seen.add(d)
                    work.append(d)
    return seen, sinks


def who_may_write(ctx, prog, spec, rule="R1"):
    n = 0
    for p, f in prog.fns.items():
        hits = []
        for fld in (spec["key"], spec["buf"], spec["cursor"]):
            if field_assignments(f, spec["adt"], fld) or field_mut_borrows(f, spec["adt"], fld) or field_partial_writes(f, spec["adt"], fld):
                hits.append(fld)
        if not hits:
            continue
        n += 1
        inside = f.self_ty == spec["impl_self"] or (f.kind == "Closure" and spec["adt"].split("::")[0] + "::" in p and prog.fns.get(p.split("::{closure")[0]) is not None and prog.fns[p.split("::{closure")[0]].self_ty == spec["impl_self"])
        ctx.fn_seen(f)
        ctx.ob(rule, "who-may-write/%s" % short(p), inside, "%s writes/borrows-mut %s of %s" % (p, hits, spec["adt"]),
               where="%s:%d" % (f.span["file"], f.span["l0"]), nontrivial=False)
    return n


def invalidate_on_clobber(ctx, prog, spec, fn_paths=None, rule="R2"):
    fns = [f for p, f in prog.fns.items() if f.self_ty == spec["impl_self"]] if fn_paths is None else [prog.fn(p) for p in fn_paths]
    count = 0
    for f in fns:
        pts = clobber_points(f, spec)
        if not pts:
            continue
        ctx.fn_seen(f)
        assigns = field_assignments(f, spec["adt"], spec["key"])
        none_blocks = [(bi, si) for bi, si, kind, rv in assigns if kind == "stmt" and _is_none_value(f, rv)]
        some_blocks = [bi for bi, si, kind, rv in assigns if not (kind == "stmt" and _is_none_value(f, rv))]
        for P in pts:
            count += 1
            # form 1: an invalidation dominates P, and no path invalidation -> publication -> P
            ok1 = False
            for nb, ns in none_blocks:
                if nb != P and not f.dominates(nb, P):
                    continue
                republished = False
                for sbk in some_blocks:
                    if sbk == nb:
                        continue
                    if find_path(f.cfg(), [nb], {sbk}, set()) and find_path(f.cfg(), [sbk], {P}, set()) and sbk != P:
                        republished = True
                if not republished:
                    ok1 = True
            # form 2: every path from P to a return re-assigns the key
            path = None
            if not ok1:
                key_blocks = {bi for bi, si, kind, rv in assigns}
                succs_p = f.cfg().get(P, [])
                path = find_path(f.cfg(), succs_p, set(f.return_blocks()), key_blocks - {P})
            ok = ok1 or path is None
            callee = short(callee_of(f.blocks[P]["term"])) if f.blocks[P]["term"]["k"] == "call" else "store"
            detail = ("&mut %s is handed to %s; " % (spec["buf"], callee)) + (
                "dominated by %s = None" % spec["key"] if ok1 else
                ("every exit re-assigns %s" % spec["key"] if ok else "exit reachable with %s still naming the old page" % spec["key"]))
            ctx.ob(rule, "invalidate-on-clobber/%s/%s" % (short(f.path), callee), ok, detail, where=f.file_line(P),
                   path=None if ok else " -> ".join("bb%d(%s)" % (b, f.file_line(b)) for b in ([P] + path)))
    return count


def _is_none_value(fn, rv):
    if is_variant_agg(rv, "option::Option", "None"):
        return True
    if rv["k"] == "use":
        t = Resolver(fn).operand(rv["op"])
        return t[0] == "agg" and t[1][0] == "adt" and t[1][2] == "None"
    return False


def validate_before_publish(ctx, prog, spec, crc_kind, rule="R3"):
    f = prog.fn(spec["load"])
    ctx.fn_seen(f)
    R = Resolver(f)
    assigns = field_assignments(f, spec["adt"], spec["key"])
    somes = [(bi, si, rv) for bi, si, kind, rv in assigns if kind == "stmt" and not _is_none_value(f, rv)]
    somes += [(bi, si, rv) for bi, si, kind, rv in assigns if kind == "call"]
    # `key = flag.then_some(page)` / `key = if ok { Some(page) } else { None }`: one store fed by two arms - the
    # publication is the arm that builds Some(..)
    expanded = []
    for bi, si, rv in somes:
        src = op_place(rv["op"]) if isinstance(rv, dict) and rv.get("k") == "use" else None
        for _ in range(3):
            if src is None or src["proj"]:
                break
            dd = f.defs().get(src["local"], [])
            if len(dd) == 1 and dd[0][0] == "stmt" and dd[0][1]["k"] == "use" and not dd[0][4]["proj"]:
                src = op_place(dd[0][1]["op"])
                continue
            break
        dd = f.defs().get(src["local"], []) if src is not None and not src["proj"] else []
        if len(dd) >= 2 and all(d[0] == "stmt" and not d[4]["proj"] and d[1]["k"] == "aggregate" and d[1]["kind"].get("variant") in ("Some", "None") for d in dd):
            for d in dd:
                if d[1]["kind"].get("variant") == "Some" and d[2] in f.cfg():
                    expanded.append((d[2], d[3], d[1]))
        else:
            expanded.append((bi, si, rv))
    somes = expanded
    # comparison calls
    cmps = []
    for bi, t in f.calls(lambda c, t: c.rsplit("::", 1)[-1] in ("ne", "eq")):
        a, b = (strip(R.operand(x)) for x in t["args"][:2])
        cmps.append((bi, t, a, b))
    good_cmp = []
    crc_site = None
    for bi, t, a, b in cmps:
        for x, y in ((a, b), (b, a)):
            sl = slice_of(x)
            y2 = strip(y)
            if sl is None or not is_self_field(sl[0], spec["buf"]):
                continue
            if sl[1] != "from" or not is_payload_size(sl[2], spec):
                continue
            if not (y2[0] == "call" and y2[1].endswith("::to_be_bytes")):
                continue
            crc = strip(y2[2][0])
            if crc[0] != "call":
                continue
            kind = "table" if crc[1].endswith("Crc32::calculate") else ("crate" if crc[1] in ("crc32c::crc32c",) or crc[1].endswith("crc32c::crc32c") else None)
            if kind is None:
                continue
            data = slice_of(crc[2][-1])
            # the checksummed data is buf[0..n-4], however it is spelled (0..n, ..n, split_at(n).0)
            if data is None or not is_self_field(data[0], spec["buf"]) or data[1] not in ("range", "to") or (data[1] == "range" and const_val(data[2]) != 0) or not is_payload_size(data[3], spec):
                continue
            good_cmp.append((bi, t, kind, crc[3]))
            crc_site = {"callee_kind": kind, "slice": "%s[0..%s-%d]" % (spec["buf"], spec["size"], spec["checksum"])}
    ctx.ob(rule, "compare-shape/%s" % short(f.path), len(good_cmp) == 1 and good_cmp[0][2] == crc_kind,
           "found %d comparisons of %s[n-%d..] with to_be_bytes(crc(%s[0..n-%d])) (expected exactly 1 using the %s implementation); all eq/ne calls: %s" % (
               len(good_cmp), spec["buf"], spec["checksum"], spec["buf"], spec["checksum"], crc_kind,
               [(tree_str(a), tree_str(b)) for _, _, a, b in cmps]), where=f.file_line(f.cfg() and 0))
    if len(good_cmp) != 1:
        return crc_site
    cb, ct, kind, crc_block = good_cmp[0]
    be = bool_edges(f, cb)
    if be is None:
        ctx.ob(rule, "compare-controls-branch/%s" % short(f.path), False, "result of the checksum comparison is not branched on", where=f.file_line(cb))
        return crc_site
    sw, tr, fa = be
    eq_succ = fa if callee_of(ct).endswith("ne") else tr
    g = cfg_without_edges(f, [(sw, eq_succ)])
    still = reach(g, [0])
    ctx.ob(rule, "publications/%s" % short(f.path), len(somes) >= 1, "%d assignments %s = Some(..)" % (len(somes), spec["key"]), nontrivial=False)
    for bi, si, rv in somes:
        ok = bi not in still
        ctx.ob(rule, "publish-after-equal/%s" % short(f.path), ok,
               "%s = Some(..) %s reachable without taking the checksums-equal edge bb%d->bb%d" % (spec["key"], "is NOT" if ok else "IS", sw, eq_succ),
               where=f.file_line(bi, si if isinstance(si, int) else None),
               path=None if ok else " -> ".join("bb%d" % b for b in find_path(g, [0], {bi}, set())))
        # payload is the page parameter
        t = strip(R.rvalue(rv)) if isinstance(rv, dict) and "k" in rv and rv["k"] != "call" else None
        if t is not None:
            payload = t[2][0] if t[0] == "agg" and t[2] else t
            okp = strip_casts(payload) == ("param", 2)
            ctx.ob(rule, "publish-page-param/%s" % short(f.path), okp, "published key is %s (must be the page argument)" % tree_str(payload), where=f.file_line(bi, si))
    # the device was positioned at page * page_size
    seeks = f.calls_to("Seek::seek")
    okseek = False
    for bi, t in seeks:
        a = strip(R.operand(t["args"][1]))
        if a[0] == "agg" and a[1][2] == "Start":
            x = strip_casts(a[2][0])
            if x[0] == "binop" and x[1] == "Mul" and {("param", 2), "S"} == {strip_casts(x[2]) if not is_self_field(x[2], spec["size"]) else "S", strip_casts(x[3]) if not is_self_field(x[3], spec["size"]) else "S"}:
                okseek = f.dominates(bi, crc_block)
    ctx.ob(rule, "seek-target/%s" % short(f.path), okseek, "device is positioned at SeekFrom::Start(page * %s) before the CRC is computed" % spec["size"], where=f.file_line(seeks[0][0]) if seeks else None)
    # buffer is not mutated between CRC and publication: every clobber point dominates the crc call and is not reachable from it
    for P in clobber_points(f, spec):
        ok = f.dominates(P, crc_block) and not find_path(f.cfg(), f.cfg().get(crc_block, []), {P}, set())
        ctx.ob(rule, "no-mutation-after-crc/%s/bb" % short(f.path), ok, "mutation of %s at %s %s the CRC computation" % (spec["buf"], f.file_line(P), "precedes" if ok else "may follow"), where=f.file_line(P))
    return crc_site


def serve_only_verified(ctx, prog, spec, rule="R4"):
    f = prog.fn(spec["serve"])
    ctx.fn_seen(f)
    R = Resolver(f)
    # copies out of the buffer
    outs = []
    for bi, t in f.calls():
        c = callee_of(t)
        if any(c.endswith(s) for s in ("::index", "::deref", "::as_ref", "::as_slice", "::len", "::branch", "::from_residual")):
            continue
        for a in t["args"]:
            tr = R.operand(a)
            for sub in leaves(tr):
                sl = slice_of(sub)
                if sl is not None and is_self_field(sl[0], spec["buf"]):
                    outs.append((bi, t, sl))
                elif sub[0] == "field" and is_self_field(sub, spec["buf"]) and False:
                    pass
    outs = [(bi, t, sl) for bi, t, sl in outs]
    ctx.ob(rule, "copy-sites/%s" % short(f.path), len(outs) >= 1, "%d uses of %s[..] as call argument" % (len(outs), spec["buf"]), nontrivial=False)
    # admitting edges
    edges = []
    page_trees = []
    for bi, t in f.calls(lambda c, t: c.rsplit("::", 1)[-1] in ("ne", "eq")):
        a, b = (strip(R.operand(x)) for x in t["args"][:2])
        for x, y in ((a, b), (b, a)):
            if is_self_field(x, spec["key"]) and y[0] == "agg" and y[1][0] == "adt" and y[1][2] == "Some":
                be = bool_edges(f, bi)
                if be:
                    sw, tr, fa = be
                    edges.append((sw, fa if callee_of(t).endswith("ne") else tr))
                    page_trees.append(strip_casts(y[2][0]))
    # the same test spelled as a match: `Some(loaded) if loaded == page` -> switch on (self.key as Some).0 == page
    for bi in f.cfg():
        t = f.blocks[bi]["term"]
        if t["k"] != "switch":
            continue
        dl = op_place(t["discr"])
        d = R.place(dl) if dl else None
        if not (d and d[0] == "binop" and d[1] in ("Eq", "Ne")):
            continue
        for x, y in ((d[2], d[3]), (d[3], d[2])):
            if x[0] == "ok" and is_self_field(strip(x[1]), spec["key"]):
                e = switch_edges(f, bi)
                true_succ = e.get("1", e["otherwise"])
                false_succ = e.get("0")
                edges.append((bi, true_succ if d[1] == "Eq" else false_succ))
                page_trees.append(strip_casts(strip(y)))
    for bi, t in f.calls(lambda c, t: c == spec["load"]):
        br = branch_of_call(f, bi)
        if br:
            edges.append((br[0], br[1]))
            page_trees.append(strip_casts(R.operand(t["args"][1])))
    g = cfg_without_edges(f, edges)
    still = reach(g, [0])
    for bi, t, sl in outs:
        ok = bi not in still
        ctx.ob(rule, "serve-only-verified/%s" % short(f.path), ok,
               "copy out of %s %s reachable when the cache-hit edge and the Ok-edge of %s are cut (%d admitting edges found)" % (
                   spec["buf"], "is NOT" if ok else "IS", short(spec["load"]), len(edges)), where=f.file_line(bi),
               path=None if ok else " -> ".join("bb%d" % b for b in find_path(g, [0], {bi}, set())))
        lo = sl[2]
        want = lo is not None and _is_rem_offset(lo, spec)
        ctx.ob(rule, "serve-offset/%s" % short(f.path), want, "slice start is %s (must be %s %% (%s-%d))" % (tree_str(strip_deep(lo)) if lo else None, spec["cursor"], spec["size"], spec["checksum"]), where=f.file_line(bi))
    # the cursor advances only after the page was verified: a failed load leaves the reader where it was
    for bi2, si2, kind2, payload2 in field_assignments(f, spec["adt"], spec["cursor"]):
        okc = bi2 not in still
        ctx.ob(rule, "advance-after-verify/%s" % short(f.path), okc,
               "the assignment to %s %s reachable when the cache-hit edge and the Ok-edge of %s are cut: a read that fails must not move the cursor" % (
                   spec["cursor"], "is NOT" if okc else "IS", short(spec["load"])), where=f.file_line(bi2, si2 if isinstance(si2, int) else None),
               path=None if okc else " -> ".join("bb%d" % b for b in find_path(g, [0], {bi2}, set())))
    okp = len(page_trees) >= 2 and all(_is_div_offset(p, spec) for p in page_trees)
    ctx.ob(rule, "serve-page/%s" % short(f.path), okp, "page compared with the cache key and page loaded are both %s / (%s-%d): %s" % (
        spec["cursor"], spec["size"], spec["checksum"], [tree_str(p) for p in page_trees]))


def _is_div_offset(t, spec):
    t = strip_casts(t)
    return t[0] == "binop" and t[1] == "Div" and is_self_field(t[2], spec["cursor"]) and is_payload_size(t[3], spec)


def _is_rem_offset(t, spec):
    t = strip_casts(t)
    return t[0] == "binop" and t[1] == "Rem" and is_self_field(t[2], spec["cursor"]) and is_payload_size(t[3], spec)


def paged_reader_rules(ctx, prog, crc_kind):
    n = who_may_write(ctx, prog, PR)
    ctx.floor("R1", "functions writing the cache state", n, 4)
    c = invalidate_on_clobber(ctx, prog, PR)
    ctx.floor("R2", "points handing &mut page_buffer to a callee", c, 1)
    site = validate_before_publish(ctx, prog, PR, crc_kind)
    serve_only_verified(ctx, prog, PR)
    sites = {}
    if site:
        sites["PagedReader::read_page"] = site
    # writer-side crc sites (for the cross-cfg comparison)
    for path in ("<paged_writer::PagedWriter<T> as std::io::Write>::write", "<paged_writer::PagedWriter<T> as std::io::Write>::flush"):
        f = prog.fn(path)
        R = Resolver(f)
        for bi, t in f.calls(lambda c, t: c.endswith("Crc32::calculate") or c.endswith("crc32c::crc32c")):
            sl = slice_of(R.operand(t["args"][-1]))
            desc = None
            if sl is not None:
                desc = "%s[%s]" % (self_field(sl[0]), ",".join(tree_str(strip_deep(x)) if x else "" for x in sl[2:]))
            sites[short(path)] = {"callee_kind": "table" if callee_of(t).endswith("calculate") else "crate", "slice": desc}
    return sites


def validate_crc_rule(ctx, prog, rule="R7"):
    f = prog.fn("e57_reader::E57Reader::<T>::validate_crc")
    ctx.fn_seen(f)
    R = Resolver(f)
    reads = f.calls_to(PR["serve"])
    loops = natural_loops(f)
    ok_any = False
    for bi, t in reads:
        in_loop = [h for h, body in loops.items() if bi in body]
        br = branch_of_call(f, bi)
        # the count is compared with 0 and controls the loop exit
        cmp0 = False
        if br and in_loop:
            body = loops[in_loop[0]]
            cont = br[1]
            b = f.blocks[cont]
            tt = b["term"]
            # the continuation may copy the count before testing it: look at the first switch on the way
            for _ in range(4):
                if f.blocks[cont]["term"]["k"] == "goto":
                    cont = f.blocks[cont]["term"]["target"]
            tt = f.blocks[cont]["term"]
            if tt["k"] == "switch":
                te = int_test_edges(f, Resolver(f), cont)
                if te is not None and 0 in te[1]:
                    cmp0 = te[1][0] not in body and any(s_ in body for s_ in te[2])
                    # ... and it is the only way to leave the loop successfully: any other exit (a page counter
                    # compared with a header field, a byte budget) could end validation before the last page
                    for b_ in body:
                        for s_ in f.cfg().get(b_, []):
                            if s_ not in body and not (b_ == cont and s_ == te[1][0]) and f.ok_reachable(start=[s_]) is not None:
                                cmp0 = False
                                other_exit = (b_, s_)
        buf = strip(R.operand(t["args"][1]))
        size_ok = False
        for sub in leaves(R.operand(t["args"][1])):
            if sub[0] == "call" and sub[1].endswith("from_elem"):
                n = strip_casts(sub[2][1])
                size_ok = n[0] == "call" and n[1].endswith("get_u64") or (n[0] == "ok" and False)
                nn = strip(strip_casts(sub[2][1]))
                size_ok = nn[0] == "call" and nn[1].endswith("get_u64")
        ok = bool(in_loop) and br is not None and cmp0 and size_ok
        ok_any = ok_any or ok
        ctx.ob(rule, "validate-loop/%s" % short(f.path), ok, "read in loop=%s, error propagated by ?=%s, count compared with 0 controls loop exit=%s, buffer = vec![0; page_size]=%s" % (
            bool(in_loop), br is not None, cmp0, size_ok), where=f.file_line(bi))
    ctx.floor(rule, "calls of PagedReader::read in validate_crc", len(reads), 1)


# ----------------------------------------------------------------------------------------
def controls(ctx):
    """positive / negative controls on the fixture crate."""
    import framework
    prog, info = load_program("controls", "controls")
    ctx.configs["controls"] = info
    spec = dict(PR)
    spec.update(adt="cache::Cache", impl_self="cache::Cache<T>")
    for name, expect_bad in (("cache::Cache::<T>::load_stale", True), ("cache::Cache::<T>::load_ok", False)):
        sub = framework.Ctx("CTL", ctx.tier)
        invalidate_on_clobber(sub, prog, spec, [name], rule="R2")
        fired = any(not o.ok for o in sub.obs)
        ctx.control("R2", name, fired, expect_bad)
    for name, expect_bad in (("cache::Cache::<T>::load_publish_early", True), ("cache::Cache::<T>::load_ok", False)):
        sub = framework.Ctx("CTL", ctx.tier)
        s2 = dict(spec, load=name)
        validate_before_publish(sub, prog, s2, "table", rule="R3")
        fired = any(not o.ok for o in sub.obs)
        ctx.control("R3", name, fired, expect_bad)
    for name, expect_bad in (("cache::Cache::<T>::serve_unchecked", True), ("cache::Cache::<T>::serve_ok", False)):
        sub = framework.Ctx("CTL", ctx.tier)
        s2 = dict(spec, serve=name, load="cache::Cache::<T>::load_ok")
        serve_only_verified(sub, prog, s2, rule="R4")
        fired = any(not o.ok for o in sub.obs)
        ctx.control("R4", name, fired, expect_bad)
