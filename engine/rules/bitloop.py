"""C12-R5: what one iteration of the unaligned path of ByteStreamWriteBuffer::add_bits does, decided algebraically.

The loop `for b in 0..bits` must, in iteration b (s = last_byte_bit on entry, B0 = buffer.len() - 1 on entry),

    buffer[B0 + (s + b) / 8] |= bit b of data  <<  ((s + b) mod 8)          and leave   last_byte_bit = (s + b + 1) mod 8

however that is spelled: the shift amount may be the loop-carried field itself (then last_byte_bit = (s + b) mod 8 is
the induction hypothesis and the update must re-establish it) or an expression in b; the source bit may be taken with
a mask (`data[b/8] & (1 << b%8) != 0`, then a conditional target mask) or with a shift (`(data[b/8] >> b%8) & 1`).

Expressions are evaluated from MIR into small terms over the atoms  s (field read before the loop), L (field read
inside the loop), b (loop variable), B0, data[..]  and compared in two normal forms: exact affine forms over the
integers and affine forms modulo 8 (x % 8 -> x, L -> s + b by the induction hypothesis).  A construct the evaluator
does not know makes the obligation *unrecognised* (None), a known construct with another value makes it False."""
from mirlib import *

FIELD = "last_byte_bit"


class Unknown(Exception):
    pass


class Ev:
    def __init__(self, fn, body):
        self.fn, self.body = fn, body

    def root(self, n):
        """the parameter a local is a copy / reborrow of (inlined helpers receive `self`, `data`, `bits` in fresh locals)"""
        fn = self.fn
        for _ in range(8):
            if 1 <= n <= fn.argc and not fn.whole_defs(n):
                return n
            ds = fn.whole_defs(n)
            if len(ds) != 1 or ds[0][0] != "stmt":
                return n
            rv = ds[0][1]
            if rv["k"] == "use" and op_place(rv["op"]) is not None:
                pl = op_place(rv["op"])
            elif rv["k"] == "ref":
                pl = rv["place"]
            elif rv["k"] == "cast" and op_place(rv["a"]) is not None:
                pl = op_place(rv["a"])
            else:
                return n
            if any(e["k"] != "deref" for e in pl["proj"]):
                return n
            n = pl["local"]
        return n

    def is_field(self, pl):
        return pl is not None and self.root(pl["local"]) == 1 and [e.get("name") for e in pl["proj"] if e["k"] not in ("deref",)] == [FIELD]

    def op(self, o, depth=0):
        if o["k"] == "const":
            if "bits" in o:
                return ("c", int(o["bits"]))
            raise Unknown("constant %s" % o.get("dbg"))
        return self.place(o["place"], depth)

    def place(self, pl, depth=0):
        fn = self.fn
        if depth > 40:
            raise Unknown("depth")
        proj = [e for e in pl["proj"] if e["k"] != "deref"]
        if self.is_field(pl):
            raise Unknown("field read without position")         # handled by the caller (needs the block)
        if self.root(pl["local"]) == 2 and len(proj) == 1 and proj[0]["k"] == "index":
            return ("data", self.local(proj[0]["local"], depth + 1))
        if self.root(pl["local"]) == 3 and not proj:
            return ("bits",)
        if proj:
            # (_t.0) of a checked operation
            if len(proj) == 1 and proj[0]["k"] == "field" and proj[0]["idx"] == 0:
                ds = fn.whole_defs(pl["local"])
                if len(ds) == 1 and ds[0][0] == "stmt" and ds[0][1]["k"] == "binop" and ds[0][1]["op"].endswith("WithOverflow"):
                    rv = dict(ds[0][1])
                    rv["op"] = rv["op"][:-len("WithOverflow")]
                    return self.rvalue(rv, ds[0][2], depth + 1)
                # payload of Some(next()) of the range iterator: the loop variable
                if len(ds) == 1 and ds[0][0] == "call" and callee_of(ds[0][1]).endswith("::next"):
                    return ("b",)
            if len(proj) == 2 and proj[0]["k"] == "downcast" and proj[0]["variant"] == "Some" and proj[1]["k"] == "field":
                ds = fn.whole_defs(pl["local"])
                if len(ds) == 1 and ds[0][0] == "call" and callee_of(ds[0][1]).endswith("::next") and "ange" in callee_of(ds[0][1]):
                    return ("b",)
            raise Unknown("projection %s" % place_str(pl))
        return self.local(pl["local"], depth)

    def local(self, n, depth=0):
        fn = self.fn
        if self.root(n) == 3:
            return ("bits",)
        if n in counter_locals(fn):
            return ("b",)                                   # `while b < bits { ..; b += 1 }` (mirlib.counter_locals)
        ds = fn.defs().get(n, [])
        ds = [d for d in ds if d[2] in fn.cfg()]
        if any(d[4]["proj"] for d in ds) or not ds:
            raise Unknown("local _%d" % n)
        if len(ds) == 2 and all(d[0] == "stmt" for d in ds):
            # `let m = if c { x } else { y }`: both arms hang off one bool switch
            (a, b) = ds
            for sw in fn.cfg():
                t = fn.blocks[sw]["term"]
                if t["k"] != "switch":
                    continue
                e = switch_edges(fn, sw)
                tr, fa = e.get("1", e["otherwise"]), e.get("0")
                if fa is None or tr == fa:
                    continue
                for (x, y) in ((a, b), (b, a)):
                    if self._arm(tr, x[2], fa) and self._arm(fa, y[2], tr):
                        cond = self.op(t["discr"], depth + 1)
                        return ("sel", cond, self.rvalue(x[1], x[2], depth + 1), self.rvalue(y[1], y[2], depth + 1))
            raise Unknown("two definitions of _%d" % n)
        if len(ds) != 1:
            raise Unknown("local _%d has %d definitions" % (n, len(ds)))
        kind, payload, bi, si, place = ds[0]
        if kind == "call":
            c = callee_of(payload)
            if c.endswith("Vec::<T, A>::len") or c.endswith("::len"):
                return ("len", bi in self.body)
            if c.rsplit("::", 1)[-1] == "from" and len(payload["args"]) == 1:
                return self.op(payload["args"][0], depth + 1)          # u8::from(bool) / usize::from(u8): value preserving
            if c.endswith("::into_iter") and payload["args"]:
                return self.op(payload["args"][0], depth + 1)
            raise Unknown("call %s" % short(c))
        return self.rvalue(payload, bi, depth + 1)

    def _arm(self, start, target, other_start):
        """target is reached from start without passing other_start's side (a straight arm)"""
        g = self.fn.cfg()
        b = start
        for _ in range(6):
            if b == target:
                return True
            ss = g.get(b, [])
            if len(ss) != 1:
                return False
            b = ss[0]
        return False

    def rvalue(self, rv, bi, depth=0):
        k = rv["k"]
        if k == "use":
            o = rv["op"]
            pl = op_place(o)
            if self.is_field(pl):
                return ("L",) if bi in self.body else ("s",)
            return self.op(o, depth + 1)
        if k == "cast":
            return self.op(rv["a"], depth + 1)               # only widening / bool->int casts occur; checked by the type rule below
        if k == "binop":
            a, b = self.op(rv["a"], depth + 1), self.op(rv["b"], depth + 1)
            return (rv["op"], a, b)
        if k == "unop" and rv["op"] == "Not":
            return ("Not", self.op(rv["a"], depth + 1))
        if k == "ref":
            return self.place(rv["place"], depth + 1)
        raise Unknown("rvalue %s" % k)


def _c(t):
    return t[1] if t[0] == "c" else None


def affine(t):
    """exact integer affine form {atom: coeff, 1: const} or None"""
    if t[0] == "c":
        return {1: t[1]}
    if t[0] in ("s", "b", "L", "bits"):
        return {t[0]: 1}
    if t[0] == "Add":
        a, b = affine(t[1]), affine(t[2])
        if a is None or b is None:
            return None
        out = dict(a)
        for k, v in b.items():
            out[k] = out.get(k, 0) + v
        return {k: v for k, v in out.items() if v}
    return None


def mod8(t):
    """affine form modulo 8 with L := s + b (induction hypothesis) or None"""
    if t[0] == "c":
        return {1: t[1] % 8} if t[1] % 8 else {}
    if t[0] in ("s", "b"):
        return {t[0]: 1}
    if t[0] == "L":
        return {"s": 1, "b": 1}
    if t[0] == "Rem" and _c(t[2]) == 8:
        return mod8(t[1])
    if t[0] == "Add":
        a, b = mod8(t[1]), mod8(t[2])
        if a is None or b is None:
            return None
        out = dict(a)
        for k, v in b.items():
            out[k] = (out.get(k, 0) + v) % 8
        return {k: v for k, v in out.items() if v}
    return None


def reduced(t):
    """value certainly in 0..7"""
    return t[0] in ("L", "s") or (t[0] == "Rem" and _c(t[2]) == 8)


def _is_b_div8(t):
    return t[0] == "Div" and _c(t[2]) == 8 and t[1] == ("b",)


def _is_b_rem8(t):
    return t[0] == "Rem" and _c(t[2]) == 8 and t[1] == ("b",)


def source_bit(t):
    """t is the 0/1 (or bool) value of bit b of data: ('bool'|'int') or None"""
    # (data[b/8] & (1 << b%8)) != 0
    if t[0] == "Ne" and _c(t[2]) == 0 and t[1][0] == "BitAnd":
        x, y = t[1][1], t[1][2]
        for d, m in ((x, y), (y, x)):
            if d[0] == "data" and _is_b_div8(d[1]) and m[0] == "Shl" and _c(m[1]) == 1 and _is_b_rem8(m[2]):
                return "bool"
        return None
    # (data[b/8] >> b%8) & 1
    if t[0] == "BitAnd":
        for x, y in ((t[1], t[2]), (t[2], t[1])):
            if _c(y) == 1 and x[0] == "Shr" and x[1][0] == "data" and _is_b_div8(x[1][1]) and _is_b_rem8(x[2]):
                return "int"
    return None


def target_value(v):
    """the OR-ed value is (bit b of data) << P: returns P or None"""
    if v[0] == "sel":
        cond, x, y = v[1], v[2], v[3]
        if source_bit(cond) == "bool" and x[0] == "Shl" and _c(x[1]) == 1 and _c(y) == 0:
            return x[2]
        if cond[0] == "Not" and source_bit(cond[1]) == "bool" and y[0] == "Shl" and _c(y[1]) == 1 and _c(x) == 0:
            return y[2]
        return None
    if v[0] == "Shl" and source_bit(v[1]) in ("int", "bool"):
        return v[2]
    return None


def tstr(t):
    if not isinstance(t, tuple):
        return str(t)
    if len(t) == 1:
        return t[0]
    if t[0] == "c":
        return str(t[1])
    return "%s(%s)" % (t[0], ", ".join(tstr(x) for x in t[1:]))


def analyse(fn):
    """returns dict clause -> (verdict True|False|None, description)"""
    loops = natural_loops(fn)
    out = {}
    # the loop that contains the `|=` store through index_mut(self.buffer, T)
    store = None
    for bi in fn.cfg():
        for si, st in enumerate(fn.blocks[bi]["stmts"]):
            rv = st["rv"]
            pl = st["place"]
            if rv["k"] == "binop" and rv["op"] == "BitOr" and len(pl["proj"]) == 1 and pl["proj"][0]["k"] == "deref":
                ds = fn.whole_defs(pl["local"])
                if len(ds) == 1 and ds[0][0] == "call" and callee_of(ds[0][1]).endswith("index_mut"):
                    store = (bi, st, ds[0][1])
    if store is None:
        return {"store": (None, "no `buffer[i] |= v` through index_mut found")}
    sb, st, idx_call = store
    bodies = [body for h, body in loops.items() if sb in body]
    if not bodies:
        return {"store": (False, "the |= store is not inside a loop")}
    body = min(bodies, key=len)
    ev = Ev(fn, body)
    R = Resolver(fn)
    is_buf = self_field(strip(R.operand(idx_call["args"][0]))) == "buffer"
    out["store"] = (is_buf, "the loop ORs into self.buffer[..]")
    # operands of the BitOr: one is the old byte, the other the value
    a, b = st["rv"]["a"], st["rv"]["b"]
    old = op_place(a)
    val_op = b if old is not None and old["local"] == st["place"]["local"] else a
    try:
        T = ev.op(idx_call["args"][1])
        okT = None
        desc = tstr(T)
        if T[0] == "Add":
            for base, q in ((T[1], T[2]), (T[2], T[1])):
                if q[0] == "Div" and _c(q[2]) == 8:
                    aff = affine(q[1])
                    okb = base[0] == "Sub" and base[1] == ("len", False) and _c(base[2]) == 1
                    okT = okb and aff == {"s": 1, "b": 1}
        if okT is None:
            okT = False
        out["target-byte"] = (okT, "byte index = %s (must be (len - 1 at entry) + (start_bit + b) / 8 with start_bit read before the loop)" % desc)
    except Unknown as e:
        out["target-byte"] = (None, "target byte expression not interpreted: %s" % e)
    try:
        V = ev.op(val_op)
        P = target_value(V)
        if P is None and V[0] == "Shl" and _c(V[1]) == 1:
            # `if source_bit { buffer[T] |= 1 << P }`: the store itself is conditional on the source bit
            header = [h for h, bd in loops.items() if bd == body][0]
            gb = {x: [y for y in ss if y in body] for x, ss in fn.cfg().items() if x in body}
            for sw in body:
                t = fn.blocks[sw]["term"]
                if t["k"] != "switch":
                    continue
                e = switch_edges(fn, sw)
                tr, fa = e.get("1", e["otherwise"]), e.get("0")
                if fa is None or tr == fa:
                    continue
                try:
                    cond = ev.op(t["discr"])
                except Unknown:
                    continue
                want = tr if source_bit(cond) == "bool" else (fa if cond[0] == "Not" and source_bit(cond[1]) == "bool" else None)
                if want is None:
                    continue
                cut = {x: [y for y in ss if not (x == sw and y == want)] for x, ss in gb.items()}
                if sb not in reach(cut, [header]):
                    P = V[2]
        if P is None:
            known = V[0] in ("sel", "Shl")
            out["value"] = (False if known else None, "OR-ed value = %s (must be bit b of data, i.e. data[b/8] bit b%%8, shifted to the target position)" % tstr(V))
        else:
            m = mod8(P)
            okP = m == {"s": 1, "b": 1} and reduced(P)
            out["value"] = (okP, "OR-ed value = (bit b%%8 of data[b/8]) << %s; position must be (start_bit + b) mod 8 and < 8: normal form %s, reduced=%s" % (tstr(P), m, reduced(P)))
    except Unknown as e:
        out["value"] = (None, "OR-ed value not interpreted: %s" % e)
    # the update of the phase field inside the loop
    ups = [(bi, si, p) for bi, si, kind, p in field_assignments(fn, "bs_write::ByteStreamWriteBuffer", FIELD) if kind == "stmt" and bi in body]
    if len(ups) != 1:
        out["phase"] = (False, "last_byte_bit is assigned %d times per iteration (must be once)" % len(ups))
    else:
        ub, usi, up = ups[0]
        try:
            U = ev.rvalue(up, ub)
            m = mod8(U)
            okU = m == {"s": 1, "b": 1, 1: 1} and reduced(U)
            # no read of the field after the update within the iteration
            g = {x: [y for y in ss if y in body] for x, ss in fn.cfg().items() if x in body}
            header = [h for h, bd in loops.items() if bd is body or bd == body][0]
            g2 = {x: [y for y in ss if y != header] for x, ss in g.items()}
            after = reach(g2, g2.get(ub, []))
            late = False
            for x in list(after) + [ub]:
                for si2, s2 in enumerate(fn.blocks[x]["stmts"]):
                    if x == ub and si2 <= usi:
                        continue
                    rv2 = s2["rv"]
                    p2 = op_place(rv2["op"]) if rv2["k"] == "use" else None
                    if ev.is_field(p2):
                        late = True
            out["phase"] = (okU and not late, "last_byte_bit <- %s per bit: normal form mod 8 %s (must be start_bit + b + 1, reduced mod 8, and not read again in the same iteration: %s)" % (tstr(U), m, not late))
        except Unknown as e:
            out["phase"] = (None, "phase update not interpreted: %s" % e)
    # a zero byte is appended when the target byte does not exist yet
    pushes = [bi for bi, t in fn.calls(lambda c, t: c.endswith("Vec::<T, A>::push")) if bi in body]
    okp = False
    for pb in pushes:
        t = fn.blocks[pb]["term"]
        v = t["args"][1]
        # the push precedes the store on its path
        okp = v["k"] == "const" and int(v.get("bits", "1")) == 0 and find_path(fn.cfg(), [pb], {sb}, set()) is not None
    out["grow"] = (okp and len(pushes) == 1, "a single push(0) inside the loop precedes the store (%d pushes)" % len(pushes))
    return out
