#![feature(rustc_private)]
#![allow(unused)]
extern crate rustc_abi;
extern crate rustc_driver;
extern crate rustc_hir;
extern crate rustc_interface;
extern crate rustc_middle;
extern crate rustc_span;

use rustc_driver::Compilation;
use rustc_hir::def::DefKind;
use rustc_interface::interface::Compiler;
use rustc_middle::mir::*;
use rustc_middle::ty::{self, Instance, Ty, TyCtxt, TypingEnv};
use rustc_span::def_id::{DefId, LOCAL_CRATE};
use std::fmt::Write as _;

fn esc(s: &str) -> String {
    let mut o = String::with_capacity(s.len() + 2);
    o.push('"');
    for c in s.chars() {
        match c {
            '"' => o.push_str("\\\""),
            '\\' => o.push_str("\\\\"),
            '\n' => o.push_str("\\n"),
            '\r' => o.push_str("\\r"),
            '\t' => o.push_str("\\t"),
            c if (c as u32) < 0x20 => { let _ = write!(o, "\\u{:04x}", c as u32); }
            c => o.push(c),
        }
    }
    o.push('"');
    o
}
fn bytes_json(b: &[u8]) -> String {
    let mut o = String::from("[");
    for (i, x) in b.iter().enumerate() { if i > 0 { o.push(','); } let _ = write!(o, "{}", x); }
    o.push(']');
    o
}

struct Cx<'a, 'tcx> { tcx: TyCtxt<'tcx>, body: &'a Body<'tcx>, did: DefId, env: TypingEnv<'tcx> }

impl<'a, 'tcx> Cx<'a, 'tcx> {
    fn span(&self, sp: rustc_span::Span) -> String {
        let sm = self.tcx.sess.source_map();
        let lo = sm.lookup_char_pos(sp.lo());
        let hi = sm.lookup_char_pos(sp.hi());
        let f = match &lo.file.name { rustc_span::FileName::Real(r) => format!("{}", r.local_path().map(|p| p.display().to_string()).unwrap_or_default()), o => format!("{:?}", o) };
        format!("{{\"file\":{},\"l0\":{},\"l1\":{},\"exp\":{}}}", esc(&f), lo.line, hi.line, sp.from_expansion())
    }
    fn place(&self, p: &Place<'tcx>) -> String {
        let mut o = format!("{{\"local\":{},\"proj\":[", p.local.as_usize());
        let mut first = true;
        for (base, elem) in p.iter_projections() {
            if !first { o.push(','); } first = false;
            let bty = base.ty(&self.body.local_decls, self.tcx);
            match elem {
                ProjectionElem::Deref => o.push_str("{\"k\":\"deref\"}"),
                ProjectionElem::Field(f, fty) => {
                    let mut name = String::new(); let mut adt = String::new();
                    if let ty::Adt(def, _) = bty.ty.kind() {
                        let v = bty.variant_index.unwrap_or(rustc_abi::FIRST_VARIANT);
                        if v.as_usize() < def.variants().len() {
                            let var = def.variant(v);
                            if f.as_usize() < var.fields.len() { name = var.fields[f].name.to_string(); }
                        }
                        adt = self.tcx.def_path_str(def.did());
                    } else if let ty::Closure(cdid, _) = bty.ty.kind() {
                        let names = self.tcx.closure_saved_names_of_captured_variables(*cdid);
                        if f.as_usize() < names.len() { name = names[f].to_string(); }
                        adt = format!("closure:{}", self.tcx.def_path_str(*cdid));
                    } else if let ty::Tuple(_) = bty.ty.kind() {
                        adt = "tuple".to_string();
                    }
                    let _ = write!(o, "{{\"k\":\"field\",\"idx\":{},\"name\":{},\"adt\":{},\"ty\":{}}}", f.as_usize(), esc(&name), esc(&adt), esc(&fty.to_string()));
                }
                ProjectionElem::Downcast(sym, v) => { let _ = write!(o, "{{\"k\":\"downcast\",\"variant\":{},\"vidx\":{}}}", esc(&sym.map(|s| s.to_string()).unwrap_or_default()), v.as_usize()); }
                ProjectionElem::Index(l) => { let _ = write!(o, "{{\"k\":\"index\",\"local\":{}}}", l.as_usize()); }
                ProjectionElem::ConstantIndex { offset, min_length, from_end } => { let _ = write!(o, "{{\"k\":\"cidx\",\"off\":{},\"min\":{},\"from_end\":{}}}", offset, min_length, from_end); }
                ProjectionElem::Subslice { from, to, from_end } => {
                    let alen: i64 = if let ty::Array(_, n) = bty.ty.kind() { n.try_to_target_usize(self.tcx).map(|x| x as i64).unwrap_or(-1) } else { -1 };
                    let _ = write!(o, "{{\"k\":\"subslice\",\"from\":{},\"to\":{},\"from_end\":{},\"array_len\":{}}}", from, to, from_end, alen);
                }
                other => { let _ = write!(o, "{{\"k\":\"other\",\"dbg\":{}}}", esc(&format!("{:?}", other))); }
            }
        }
        o.push_str("]}");
        o
    }
    fn konst(&self, c: &ConstOperand<'tcx>) -> String {
        let ty = c.const_.ty();
        let mut o = format!("{{\"k\":\"const\",\"ty\":{}", esc(&ty.to_string()));
        if let ty::FnDef(fd, args) = ty.kind() {
            let _ = write!(o, ",\"fn\":{}", esc(&self.tcx.def_path_str(*fd)));
            if let Ok(Some(i)) = Instance::try_resolve(self.tcx, self.env, *fd, args) {
                let _ = write!(o, ",\"fn_resolved\":{}", esc(&self.tcx.def_path_str(i.def_id())));
            }
        } else if let Some(si) = c.const_.try_eval_scalar_int(self.tcx, self.env) {
            let bits = si.to_bits_unchecked();
            let sz = si.size().bytes();
            let _ = write!(o, ",\"bits\":\"{}\",\"size\":{}", bits, sz);
        } else if let Ok(val) = c.const_.eval(self.tcx, self.env, c.span) {
            if matches!(val, ConstValue::Slice { .. }) {
                if let Some(b) = val.try_get_slice_bytes_for_diagnostics(self.tcx) {
                    if matches!(ty.kind(), ty::Ref(_, t, _) if t.is_str()) {
                        let _ = write!(o, ",\"str\":{}", esc(&String::from_utf8_lossy(b)));
                    } else { let _ = write!(o, ",\"bytes\":{}", bytes_json(b)); }
                }
            } else if let Some((aid0, off0)) = match val {
                ConstValue::Scalar(rustc_middle::mir::interpret::Scalar::Ptr(ptr, _)) => { let (prov, off) = ptr.prov_and_relative_offset(); Some((prov.alloc_id(), off.bytes() as usize)) }
                ConstValue::Indirect { alloc_id, offset } if matches!(ty.kind(), ty::Array(..)) => Some((alloc_id, offset.bytes() as usize)),
                _ => None,
            } {
                let mut alloc_id = aid0;
                let mut offset = off0;
                // follow `&&[u8; N]`-style constants: an allocation that only holds one pointer
                for _ in 0..3 {
                    if let rustc_middle::mir::interpret::GlobalAlloc::Memory(a) = self.tcx.global_alloc(alloc_id) {
                        let a = a.inner();
                        let ptrs = a.provenance().ptrs();
                        if ptrs.len() == 1 && a.len() == 8 {
                            let (_, p) = ptrs.iter().next().unwrap();
                            let raw = a.inspect_with_uninit_and_ptr_outside_interpreter(0..8);
                            let mut arr = [0u8; 8];
                            arr.copy_from_slice(raw);
                            offset = u64::from_le_bytes(arr) as usize;
                            alloc_id = p.alloc_id();
                            continue;
                        }
                        let len = a.len();
                        let b = a.inspect_with_uninit_and_ptr_outside_interpreter(offset.min(len)..len);
                        let _ = write!(o, ",\"bytes\":{}", bytes_json(b));
                        if let Some(v) = self.enum_variant_of(ty, b) { let _ = write!(o, ",\"enum_variant\":{}", esc(&v)); }
                        // constant tables: `&[&str; N]` and `&[Enum; N]`
                        let mut peeled = ty;
                        while let ty::Ref(_, t, _) = peeled.kind() { peeled = *t; }
                        if let ty::Array(elem, n) = peeled.kind() {
                            if let Some(n) = n.try_to_target_usize(self.tcx) {
                                let n = n as usize;
                                if matches!(elem.kind(), ty::Ref(_, t, _) if t.is_str()) && b.len() >= 16 * n {
                                    let mut items: Vec<String> = vec![];
                                    let ptrs = a.provenance().ptrs();
                                    for i in 0..n {
                                        let eo = offset + 16 * i;
                                        let mut found = None;
                                        for (poff, p) in ptrs.iter() { if poff.bytes() as usize == eo { found = Some(p.alloc_id()); } }
                                        let raw = a.inspect_with_uninit_and_ptr_outside_interpreter(eo..eo + 16);
                                        let mut arr = [0u8; 8];
                                        arr.copy_from_slice(&raw[0..8]);
                                        let ioff = u64::from_le_bytes(arr) as usize;
                                        arr.copy_from_slice(&raw[8..16]);
                                        let ilen = u64::from_le_bytes(arr) as usize;
                                        let mut ok = false;
                                        if let Some(aid) = found {
                                            if let rustc_middle::mir::interpret::GlobalAlloc::Memory(ia) = self.tcx.global_alloc(aid) {
                                                let ia = ia.inner();
                                                if ioff + ilen <= ia.len() {
                                                    let sb = ia.inspect_with_uninit_and_ptr_outside_interpreter(ioff..ioff + ilen);
                                                    if let Ok(st) = std::str::from_utf8(sb) { items.push(esc(st)); ok = true; }
                                                }
                                            }
                                        }
                                        if !ok { items.clear(); break; }
                                    }
                                    if items.len() == n { let _ = write!(o, ",\"str_array\":[{}]", items.join(",")); }
                                } else if let ty::Adt(d, _) = elem.kind() {
                                    if d.is_enum() && n > 0 && b.len() % n == 0 {
                                        let es = b.len() / n;
                                        let mut items: Vec<String> = vec![];
                                        for i in 0..n {
                                            match self.enum_variant_of(*elem, &b[i * es..(i + 1) * es]) { Some(v) => items.push(esc(&v)), None => { items.clear(); break; } }
                                        }
                                        if items.len() == n { let _ = write!(o, ",\"enum_array\":[{}],\"enum_ty\":{}", items.join(","), esc(&self.tcx.def_path_str(d.did()))); }
                                    }
                                }
                            }
                        }
                        // payload of `Some("literal")`-like constants: one pointer + length
                        let ptrs = a.provenance().ptrs();
                        if ptrs.len() == 1 && b.len() == 16 {
                            let (poff, p) = ptrs.iter().next().unwrap();
                            if poff.bytes() as usize == offset {
                                let mut arr = [0u8; 8];
                                arr.copy_from_slice(&b[0..8]);
                                let inner_off = u64::from_le_bytes(arr) as usize;
                                arr.copy_from_slice(&b[8..16]);
                                let inner_len = u64::from_le_bytes(arr) as usize;
                                if let rustc_middle::mir::interpret::GlobalAlloc::Memory(ia) = self.tcx.global_alloc(p.alloc_id()) {
                                    let ia = ia.inner();
                                    if inner_off + inner_len <= ia.len() {
                                        let sb = ia.inspect_with_uninit_and_ptr_outside_interpreter(inner_off..inner_off + inner_len);
                                        if let Ok(st) = std::str::from_utf8(sb) { let _ = write!(o, ",\"payload_str\":{}", esc(st)); }
                                    }
                                }
                            }
                        }
                    }
                    break;
                }
            }
        }
        let _ = write!(o, ",\"dbg\":{}}}", esc(&format!("{}", c.const_)));
        o
    }
    /// decode the variant of an enum constant from its bytes (`&Enum` promoted constants)
    fn enum_variant_of(&self, ty: Ty<'tcx>, bytes: &[u8]) -> Option<String> {
        let inner = match ty.kind() { ty::Ref(_, t, _) => *t, _ => ty };
        let def = match inner.kind() { ty::Adt(d, _) if d.is_enum() => *d, _ => return None };
        if std::env::var("MIRFACTS_DEBUG").is_ok() { eprintln!("enum const {:?} bytes {}", inner, bytes.len()); }
        let layout = match self.tcx.layout_of(self.env.as_query_input(inner)) { Ok(l) => l, Err(e) => { if std::env::var("MIRFACTS_DEBUG").is_ok() { eprintln!("layout err {:?}", e); } return None; } };
        if std::env::var("MIRFACTS_DEBUG").is_ok() { eprintln!("variants {:?}", layout.variants); }
        use rustc_abi::{Variants, TagEncoding};
        let idx: usize = match &layout.variants {
            Variants::Single { index } => index.as_usize(),
            Variants::Multiple { tag, tag_encoding, tag_field, .. } => {
                let off = layout.fields.offset(tag_field.as_usize()).bytes() as usize;
                let size = tag.size(&self.tcx).bytes() as usize;
                if off + size > bytes.len() || size > 16 { return None; }
                let mut raw = [0u8; 16];
                raw[..size].copy_from_slice(&bytes[off..off + size]);
                let t = u128::from_le_bytes(raw);
                let mask: u128 = if size >= 16 { u128::MAX } else { (1u128 << (size * 8)) - 1 };
                match tag_encoding {
                    TagEncoding::Direct => {
                        let mut found = None;
                        for (vi, d) in def.discriminants(self.tcx) { if (d.val & mask) == t { found = Some(vi.as_usize()); } }
                        found?
                    }
                    TagEncoding::Niche { untagged_variant, niche_variants, niche_start } => {
                        let rel = t.wrapping_sub(*niche_start) & mask;
                        let span = (niche_variants.end().as_usize() - niche_variants.start().as_usize()) as u128;
                        if rel <= span { niche_variants.start().as_usize() + rel as usize } else { untagged_variant.as_usize() }
                    }
                }
            }
            _ => return None,
        };
        let v = def.variants().iter().nth(idx)?;
        Some(v.name.to_string())
    }
    fn operand(&self, op: &Operand<'tcx>) -> String {
        match op {
            Operand::Copy(p) => format!("{{\"k\":\"copy\",\"place\":{}}}", self.place(p)),
            Operand::Move(p) => format!("{{\"k\":\"move\",\"place\":{}}}", self.place(p)),
            Operand::Constant(c) => self.konst(c),
            other => format!("{{\"k\":\"other\",\"dbg\":{}}}", esc(&format!("{:?}", other))),
        }
    }
    fn rvalue(&self, rv: &Rvalue<'tcx>) -> String {
        match rv {
            Rvalue::Use(op, ..) => format!("{{\"k\":\"use\",\"op\":{}}}", self.operand(op)),
            Rvalue::Ref(_, bk, p) => format!("{{\"k\":\"ref\",\"mut\":{},\"place\":{}}}", matches!(bk, BorrowKind::Mut { .. }), self.place(p)),
            Rvalue::RawPtr(kind, p) => format!("{{\"k\":\"ref\",\"raw\":true,\"mut\":{},\"place\":{}}}", matches!(kind, RawPtrKind::Mut), self.place(p)),
            Rvalue::BinaryOp(op, ab) => format!("{{\"k\":\"binop\",\"op\":{},\"a\":{},\"b\":{}}}", esc(&format!("{:?}", op)), self.operand(&ab.0), self.operand(&ab.1)),
            Rvalue::UnaryOp(op, a) => format!("{{\"k\":\"unop\",\"op\":{},\"a\":{}}}", esc(&format!("{:?}", op)), self.operand(a)),
            Rvalue::Cast(kind, a, ty) => format!("{{\"k\":\"cast\",\"kind\":{},\"a\":{},\"ty\":{}}}", esc(&format!("{:?}", kind)), self.operand(a), esc(&ty.to_string())),
            Rvalue::Discriminant(p) => format!("{{\"k\":\"discr\",\"place\":{}}}", self.place(p)),
            Rvalue::Repeat(a, n) => format!("{{\"k\":\"repeat\",\"a\":{},\"n\":{}}}", self.operand(a), esc(&format!("{}", n))),
            Rvalue::CopyForDeref(p) => format!("{{\"k\":\"use\",\"op\":{{\"k\":\"copy\",\"place\":{}}}}}", self.place(p)),
            Rvalue::Aggregate(kind, ops) => {
                let k = match &**kind {
                    AggregateKind::Array(t) => format!("{{\"agg\":\"array\",\"ty\":{}}}", esc(&t.to_string())),
                    AggregateKind::Tuple => "{\"agg\":\"tuple\"}".to_string(),
                    AggregateKind::Adt(did, v, _, _, _) => {
                        let def = self.tcx.adt_def(*did);
                        let var = def.variant(*v);
                        let fields: Vec<String> = var.fields.iter().map(|f| esc(&f.name.to_string())).collect();
                        format!("{{\"agg\":\"adt\",\"adt\":{},\"variant\":{},\"vidx\":{},\"fields\":[{}]}}", esc(&self.tcx.def_path_str(*did)), esc(&var.name.to_string()), v.as_usize(), fields.join(","))
                    }
                    AggregateKind::Closure(did, _) => format!("{{\"agg\":\"closure\",\"def\":{}}}", esc(&self.tcx.def_path_str(*did))),
                    other => format!("{{\"agg\":\"other\",\"dbg\":{}}}", esc(&format!("{:?}", other))),
                };
                let os: Vec<String> = ops.iter().map(|o| self.operand(o)).collect();
                format!("{{\"k\":\"aggregate\",\"kind\":{},\"ops\":[{}]}}", k, os.join(","))
            }
            other => format!("{{\"k\":\"other\",\"dbg\":{}}}", esc(&format!("{:?}", other))),
        }
    }
    fn callee(&self, func: &Operand<'tcx>) -> String {
        if let Some((cdid, args)) = func.const_fn_def() {
            let syn = self.tcx.def_path_str(cdid);
            let r = Instance::try_resolve(self.tcx, self.env, cdid, args);
            let (res, resolved, rdid) = match r { Ok(Some(i)) => (self.tcx.def_path_str(i.def_id()), true, i.def_id()), _ => (syn.clone(), false, cdid) };
            let krate = self.tcx.crate_name(rdid.krate).to_string();
            let gargs: Vec<String> = args.iter().map(|a| esc(&a.to_string())).collect();
            format!("{{\"path\":{},\"resolved\":{},\"is_resolved\":{},\"local\":{},\"crate\":{},\"args\":[{}]}}", esc(&syn), esc(&res), resolved, rdid.is_local(), esc(&krate), gargs.join(","))
        } else {
            format!("{{\"indirect\":{}}}", self.operand(func))
        }
    }
    fn term(&self, t: &Terminator<'tcx>) -> String {
        let sp = self.span(t.source_info.span);
        match &t.kind {
            TerminatorKind::Goto { target } => format!("{{\"k\":\"goto\",\"target\":{}}}", target.as_usize()),
            TerminatorKind::SwitchInt { discr, targets } => {
                let ts: Vec<String> = targets.iter().map(|(v, b)| format!("[\"{}\",{}]", v, b.as_usize())).collect();
                format!("{{\"k\":\"switch\",\"discr\":{},\"targets\":[{}],\"otherwise\":{},\"span\":{}}}", self.operand(discr), ts.join(","), targets.otherwise().as_usize(), sp)
            }
            TerminatorKind::Return => "{\"k\":\"return\"}".to_string(),
            TerminatorKind::Unreachable => "{\"k\":\"unreachable\"}".to_string(),
            TerminatorKind::UnwindResume => "{\"k\":\"resume\"}".to_string(),
            TerminatorKind::Drop { place, target, .. } => format!("{{\"k\":\"drop\",\"place\":{},\"target\":{}}}", self.place(place), target.as_usize()),
            TerminatorKind::Call { func, args, destination, target, .. } => {
                let a: Vec<String> = args.iter().map(|x| self.operand(&x.node)).collect();
                format!("{{\"k\":\"call\",\"callee\":{},\"args\":[{}],\"dest\":{},\"target\":{},\"span\":{}}}", self.callee(func), a.join(","), self.place(destination), target.map(|b| b.as_usize() as i64).unwrap_or(-1), sp)
            }
            TerminatorKind::Assert { cond, expected, msg, target, .. } => {
                let (kind, ops): (String, Vec<String>) = match &**msg {
                    AssertKind::BoundsCheck { len, index } => ("BoundsCheck".into(), vec![self.operand(len), self.operand(index)]),
                    AssertKind::Overflow(op, a, b) => (format!("Overflow({:?})", op), vec![self.operand(a), self.operand(b)]),
                    AssertKind::OverflowNeg(a) => ("OverflowNeg".into(), vec![self.operand(a)]),
                    AssertKind::DivisionByZero(a) => ("DivisionByZero".into(), vec![self.operand(a)]),
                    AssertKind::RemainderByZero(a) => ("RemainderByZero".into(), vec![self.operand(a)]),
                    other => (format!("{:?}", other), vec![]),
                };
                format!("{{\"k\":\"assert\",\"cond\":{},\"expected\":{},\"kind\":{},\"ops\":[{}],\"target\":{},\"span\":{}}}", self.operand(cond), expected, esc(&kind), ops.join(","), target.as_usize(), sp)
            }
            other => format!("{{\"k\":\"other\",\"dbg\":{}}}", esc(&format!("{:?}", other))),
        }
    }
}

struct Cb;
impl rustc_driver::Callbacks for Cb {
    fn after_analysis<'tcx>(&mut self, _c: &Compiler, tcx: TyCtxt<'tcx>) -> Compilation {
        let krate = tcx.crate_name(LOCAL_CRATE).to_string();
        let out_dir = match std::env::var("MIRFACTS_OUT") { Ok(d) => d, Err(_) => return Compilation::Continue };
        let want = std::env::var("MIRFACTS_CRATES").unwrap_or_default();
        if !want.split(',').any(|w| w == krate) { return Compilation::Continue; }
        let mut out = String::new();
        let _ = write!(out, "{{\"crate\":{},\"fns\":[", esc(&krate));
        let ev = tcx.effective_visibilities(());
        let mut first_fn = true;
        for ldid in tcx.mir_keys(()) {
            let did = ldid.to_def_id();
            let kind = tcx.def_kind(did);
            if !matches!(kind, DefKind::Fn | DefKind::AssocFn | DefKind::Closure) { continue; }
            let body = tcx.optimized_mir(did);
            let env = TypingEnv::post_analysis(tcx, did);
            let cx = Cx { tcx, body, did, env };
            if !first_fn { out.push(','); } first_fn = false;
            let public = matches!(kind, DefKind::Fn | DefKind::AssocFn) && ev.is_reachable(*ldid);
            let (self_ty, trait_) = match tcx.opt_parent(did).filter(|p| matches!(tcx.def_kind(*p), DefKind::Impl { .. })) {
                Some(imp) => (tcx.type_of(imp).instantiate_identity().skip_norm_wip().to_string(), tcx.impl_opt_trait_ref(imp).map(|t| t.instantiate_identity().skip_norm_wip().to_string()).unwrap_or_default()),
                None => (String::new(), String::new()),
            };
            let gens = tcx.generics_of(did);
            let gnames: Vec<String> = if matches!(kind, DefKind::Closure) { vec![] } else { (0..gens.count()).map(|i| esc(&gens.param_at(i, tcx).name.to_string())).collect() };
            let _ = write!(out, "{{\"path\":{},\"kind\":{},\"public\":{},\"self_ty\":{},\"trait\":{},\"argc\":{},\"generics\":[{}],\"span\":{},\"locals\":[", esc(&tcx.def_path_str(did)), esc(&format!("{:?}", kind)), public, esc(&self_ty), esc(&trait_), body.arg_count, gnames.join(","), cx.span(body.span));
            let mut names = vec![String::new(); body.local_decls.len()];
            for vdi in &body.var_debug_info { if let VarDebugInfoContents::Place(p) = &vdi.value { if p.projection.is_empty() { names[p.local.as_usize()] = vdi.name.to_string(); } } }
            for (i, (l, d)) in body.local_decls.iter_enumerated().enumerate() {
                if i > 0 { out.push(','); }
                let _ = write!(out, "{{\"ty\":{},\"name\":{}}}", esc(&d.ty.to_string()), esc(&names[l.as_usize()]));
                let _ = l;
            }
            out.push_str("],\"blocks\":[");
            for (i, (bb, data)) in body.basic_blocks.iter_enumerated().enumerate() {
                if i > 0 { out.push(','); }
                let _ = write!(out, "{{\"cleanup\":{},\"stmts\":[", data.is_cleanup);
                let mut fs = true;
                for st in &data.statements {
                    if let StatementKind::Assign(b) = &st.kind {
                        if !fs { out.push(','); } fs = false;
                        let _ = write!(out, "{{\"place\":{},\"rv\":{},\"line\":{}}}", cx.place(&b.0), cx.rvalue(&b.1), tcx.sess.source_map().lookup_char_pos(st.source_info.span.lo()).line);
                    }
                }
                let _ = write!(out, "],\"term\":{}}}", cx.term(data.terminator()));
            }
            out.push_str("]}");
        }
        out.push_str("],\"adts\":[");
        let mut first = true;
        for id in tcx.hir_free_items() {
            let did = id.owner_id.to_def_id();
            if matches!(tcx.def_kind(did), DefKind::Struct | DefKind::Enum) {
                let def = tcx.adt_def(did);
                if !first { out.push(','); } first = false;
                let exported = ev.is_reachable(id.owner_id.def_id);
                let size = {
                    let ty = tcx.type_of(did).instantiate_identity().skip_norm_wip();
                    if tcx.generics_of(did).count() == 0 {
                        tcx.layout_of(TypingEnv::fully_monomorphized().as_query_input(ty)).map(|l| l.size.bytes() as i64).unwrap_or(-1)
                    } else { -1 }
                };
                let _ = write!(out, "{{\"path\":{},\"exported\":{},\"size\":{},\"variants\":[", esc(&tcx.def_path_str(did)), exported, size);
                for (vi, v) in def.variants().iter().enumerate() {
                    if vi > 0 { out.push(','); }
                    let fs: Vec<String> = v.fields.iter().map(|f| {
                        let fty = tcx.type_of(f.did).instantiate_identity().skip_norm_wip();
                        let env = TypingEnv::post_analysis(tcx, did);
                        let nty = tcx.try_normalize_erasing_regions(env, tcx.type_of(f.did).instantiate_identity()).unwrap_or(fty);
                        let alen: i64 = if let ty::Array(_, n) = nty.kind() { n.try_to_target_usize(tcx).map(|x| x as i64).unwrap_or(-1) } else { -1 };
                        format!("{{\"name\":{},\"ty\":{},\"pub\":{},\"array_len\":{}}}", esc(&f.name.to_string()), esc(&fty.to_string()), f.vis.is_public(), alen)
                    }).collect();
                    let _ = write!(out, "{{\"name\":{},\"fields\":[{}]}}", esc(&v.name.to_string()), fs.join(","));
                }
                out.push_str("]}");
            }
        }
        out.push_str("]}");
        let cfgtag = std::env::var("MIRFACTS_TAG").unwrap_or_else(|_| "x".into());
        std::fs::write(format!("{}/{}.{}.json", out_dir, krate, cfgtag), out).expect("write facts");
        Compilation::Continue
    }
}
fn main() {
    let args: Vec<String> = std::env::args().collect();
    let args: Vec<String> = std::iter::once("rustc".to_string()).chain(args.into_iter().skip(2)).collect();
    rustc_driver::run_compiler(&args, &mut Cb);
}
