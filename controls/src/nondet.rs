use std::collections::HashMap;

/// BAD (C19-R1): reads the clock
pub fn stamp_now() -> u64 {
    std::time::SystemTime::now().duration_since(std::time::UNIX_EPOCH).map(|d| d.as_secs()).unwrap_or(0)
}

/// BAD (C19-R1): iteration order of a HashMap
pub fn hash_order(names: &[&str]) -> String {
    let mut m: HashMap<&str, usize> = HashMap::new();
    for (i, n) in names.iter().enumerate() {
        m.insert(n, i);
    }
    m.keys().cloned().collect::<Vec<_>>().join(",")
}

/// OK
pub fn pure(names: &[&str]) -> String {
    names.join(",")
}
