use std::collections::HashMap;

/// BAD (C19-R1): reads the clock
pub fn stamp_now() -> u64 {
    std::time::SystemTime::now().duration_since(std::time::UNIX_EPOCH).map(|d| d.as_secs()).unwrap_or(0)
}

/// BAD (C19-R1): iteration order of a HashMap
pub fn hash_order(names: &[&str]) -> String {
    let mut m: HashMap<&str, usize> = HashMap::new();
    for (i, n) in names.iter().enumerate() {
        m.insert(n, i);
    }
    m.keys().cloned().collect::<Vec<_>>().join(",")
}

/// OK
pub fn pure(names: &[&str]) -> String {
    names.join(",")
}

/// BAD (C19-R1): Debug output of a HashSet shows its iteration order
pub fn hash_debug(ids: &[u64]) -> String {
    let s: std::collections::HashSet<u64> = ids.iter().copied().collect();
    format!("{:?}", s)
}

/// BAD (C19-R1): consuming iteration over a HashSet
pub fn hash_into_iter(ids: &[u64]) -> Vec<u64> {
    let s: std::collections::HashSet<u64> = ids.iter().copied().collect();
    let mut out = Vec::new();
    for v in s {
        out.push(v);
    }
    out
}

/// OK: a hash collection used for membership only; the result is a function of the arguments
pub fn hash_membership(ids: &[u64]) -> Vec<u64> {
    let mut seen = std::collections::HashSet::new();
    let mut out = Vec::new();
    for v in ids {
        if seen.insert(*v) {
            out.push(*v);
        }
    }
    if seen.contains(&0) {
        out.push(seen.len() as u64);
    }
    out
}
