use std::io::{Error, ErrorKind, Read, Result, Seek, SeekFrom};

pub struct Crc32 {
    table: [u32; 256],
}
impl Crc32 {
    pub fn calculate(&mut self, data: &[u8]) -> u32 {
        !data.iter().fold(!0, |sum, &next| self.table[((sum ^ next as u32) as u8) as usize] ^ (sum >> 8))
    }
}

pub struct Cache<T: Read + Seek> {
    page_size: u64,
    pages: u64,
    reader: T,
    offset: u64,
    page_num: Option<u64>,
    page_buffer: Vec<u8>,
    crc: Crc32,
}

impl<T: Read + Seek> Cache<T> {
    /// BAD (R2): a failed read_exact leaves page_num = Some(old) over a clobbered buffer
    pub fn load_stale(&mut self, page: u64) -> Result<()> {
        let offset = page * self.page_size;
        self.reader.seek(SeekFrom::Start(offset))?;
        self.reader.read_exact(&mut self.page_buffer)?;
        let data_size = self.page_size - 4;
        let expected = &self.page_buffer[data_size as usize..];
        let crc = self.crc.calculate(&self.page_buffer[0..data_size as usize]);
        let calculated = crc.to_be_bytes();
        if expected != calculated {
            self.page_num = None;
            return Err(Error::new(ErrorKind::InvalidData, "crc"));
        }
        self.page_num = Some(page);
        Ok(())
    }

    /// OK twin
    pub fn load_ok(&mut self, page: u64) -> Result<()> {
        let offset = page * self.page_size;
        self.page_num = None;
        self.reader.seek(SeekFrom::Start(offset))?;
        self.reader.read_exact(&mut self.page_buffer)?;
        let data_size = self.page_size - 4;
        let expected = &self.page_buffer[data_size as usize..];
        let crc = self.crc.calculate(&self.page_buffer[0..data_size as usize]);
        let calculated = crc.to_be_bytes();
        if expected != calculated {
            return Err(Error::new(ErrorKind::InvalidData, "crc"));
        }
        self.page_num = Some(page);
        Ok(())
    }

    /// BAD (R3): the key is published before the checksum comparison
    pub fn load_publish_early(&mut self, page: u64) -> Result<()> {
        let offset = page * self.page_size;
        self.page_num = None;
        self.reader.seek(SeekFrom::Start(offset))?;
        self.reader.read_exact(&mut self.page_buffer)?;
        self.page_num = Some(page);
        let data_size = self.page_size - 4;
        let expected = &self.page_buffer[data_size as usize..];
        let crc = self.crc.calculate(&self.page_buffer[0..data_size as usize]);
        let calculated = crc.to_be_bytes();
        if expected != calculated {
            return Err(Error::new(ErrorKind::InvalidData, "crc"));
        }
        Ok(())
    }

    /// BAD (R4): serves from the buffer although the load may have been skipped for the wrong reason
    pub fn serve_unchecked(&mut self, buf: &mut [u8]) -> Result<usize> {
        let page = self.offset / (self.page_size - 4);
        if page >= self.pages {
            return Ok(0);
        }
        if self.page_num != Some(page) && self.offset % 2 == 0 {
            self.load_ok(page)?;
        }
        let page_offset = self.offset % (self.page_size - 4);
        let n = usize::min(buf.len(), (self.page_size - 4 - page_offset) as usize);
        buf[..n].copy_from_slice(&self.page_buffer[page_offset as usize..page_offset as usize + n]);
        self.offset += n as u64;
        Ok(n)
    }

    /// OK twin
    pub fn serve_ok(&mut self, buf: &mut [u8]) -> Result<usize> {
        let page = self.offset / (self.page_size - 4);
        if page >= self.pages {
            return Ok(0);
        }
        if self.page_num != Some(page) {
            self.load_ok(page)?;
        }
        let page_offset = self.offset % (self.page_size - 4);
        let n = usize::min(buf.len(), (self.page_size - 4 - page_offset) as usize);
        buf[..n].copy_from_slice(&self.page_buffer[page_offset as usize..page_offset as usize + n]);
        self.offset += n as u64;
        Ok(n)
    }
}
