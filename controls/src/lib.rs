//! Fixture crate for the positive / negative controls of the /verif rule engine.
//! Every module holds tiny functions that violate exactly one rule kind ("bad") next to a
//! complying twin ("ok").  The crate is only ever analysed (cargo check + mirfacts), never run.
#![allow(dead_code, unused_variables, clippy::all)]

pub mod cache;
pub mod errs;
pub mod nondet;
pub mod xmlnav;
