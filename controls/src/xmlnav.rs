use roxmltree::Node;

/// BAD (C18-R4): the flag is taken from the element that happens to follow, so a foreign element in between hides it
pub fn by_position<'a>(value: Node<'a, 'a>) -> Option<Node<'a, 'a>> {
    value.next_sibling_element()
}

/// BAD (C18-R4): the third child, whatever it is
pub fn by_index<'a>(parent: Node<'a, 'a>) -> Option<Node<'a, 'a>> {
    parent.children().nth(2)
}

/// OK: looked up by name among all children
pub fn by_name<'a>(parent: Node<'a, 'a>) -> Option<Node<'a, 'a>> {
    parent.children().find(|n| n.has_tag_name("flag"))
}
