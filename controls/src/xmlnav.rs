use roxmltree::Node;

/// BAD (C18-R4): the flag is taken from the element that happens to follow, so a foreign element in between hides it
pub fn by_position<'a>(value: Node<'a, 'a>) -> Option<Node<'a, 'a>> {
    value.next_sibling_element()
}

/// BAD (C18-R4): the third child, whatever it is
pub fn by_index<'a>(parent: Node<'a, 'a>) -> Option<Node<'a, 'a>> {
    parent.children().nth(2)
}

/// OK: looked up by name among all children
pub fn by_name<'a>(parent: Node<'a, 'a>) -> Option<Node<'a, 'a>> {
    parent.children().find(|n| n.has_tag_name("flag"))
}

pub struct Name {
    pub namespace: String,
    pub local: String,
}

impl Name {
    pub fn tag_name(&self) -> &str {
        &self.local
    }
}

/// BAD (C18-R5): two names are taken for the same when only their local parts agree
pub fn same_local(a: &Name, b: &Name) -> bool {
    a.tag_name() == b.tag_name()
}

/// OK: namespace and local part
pub fn same_name(a: &Name, b: &Name) -> bool {
    a.namespace == b.namespace && a.local == b.local
}
