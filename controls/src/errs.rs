use std::io::{Read, Result, Write};

/// BAD (C16-R1): result ignored
pub fn drops_result<W: Write>(w: &mut W) {
    let _ = w.flush();
}

/// BAD (C16-R1): only tested
pub fn tests_only<W: Write>(w: &mut W) -> bool {
    w.write_all(b"x").is_ok()
}

/// OK
pub fn propagates<W: Write>(w: &mut W) -> Result<()> {
    w.write_all(b"x")?;
    w.flush()
}

/// OK
pub fn matches<W: Write>(w: &mut W) -> Result<u8> {
    match w.flush() {
        Ok(()) => Ok(1),
        Err(e) => Err(e),
    }
}

/// BAD (C16-R2): one raw read, short reads lose data
pub fn single_read<R: Read>(r: &mut R, buf: &mut [u8]) -> Result<()> {
    let n = r.read(buf)?;
    buf[n..].fill(0);
    Ok(())
}

/// OK
pub fn looped_read<R: Read>(r: &mut R, buf: &mut [u8]) -> Result<()> {
    let mut unread = &mut buf[..];
    while !unread.is_empty() {
        let n = r.read(unread)?;
        if n == 0 {
            break;
        }
        unread = &mut unread[n..];
    }
    unread.fill(0);
    Ok(())
}
