#!/bin/bash
# usage: tools/rfdump.sh <refactor|seed name> <cfg> <fn path>   dump the (inlined) MIR of a function on the patched tree
n=$1; cfg=$2; fn=$3
p=/verif/refactors/$n/patch.diff; [ -f $p ] || p=/verif/seeded/$n/patch.diff
git -C /repo apply $p || exit 3
python3 /verif/engine/rules/dump.py $cfg "$fn" 2>/dev/null
git -C /repo checkout -- . && git -C /repo clean -fdq -- src tools
