#!/usr/bin/env python3
"""Maintenance tool (not part of any check): records the function paths of the reference tree in
spec/known_functions.json.  Functions that are not in this list are helpers introduced later; the engine inlines their
bodies into their callers before the rules run (engine/rules/inline.py).  Also records the closures that are called
directly in the reference tree (their numbering is positional, so only those few are exempt from inlining)."""
import json, os, sys
HERE = os.path.dirname(os.path.dirname(os.path.abspath(__file__)))
sys.path.insert(0, os.path.join(HERE, "engine", "rules"))
import facts
from mirlib import Program, callee_of

out = {}
for cfg in ("lib", "lib_crc32c", "tools"):
    crates, info = facts.load(cfg)
    for crate, cf in crates.items():
        prog = Program(cf)
        direct = set()
        for f in prog.fns.values():
            for bi, t in f.calls():
                g = prog.fns.get(callee_of(t))
                if g is not None and g.kind == "Closure":
                    direct.add(g.path)
        out["%s/%s" % (cfg, crate)] = {"fns": sorted(p for p, f in prog.fns.items() if f.kind != "Closure"), "direct_closures": sorted(direct)}
json.dump(out, open(os.path.join(HERE, "spec", "known_functions.json"), "w"), indent=0)
print({k: (len(v["fns"]), len(v["direct_closures"])) for k, v in out.items()})
