#!/usr/bin/env python3
"""refactortest.py [--props C01,C07] [names...]

False-alarm regression: every /verif/refactors/<name>/patch.diff is a behaviour-preserving refactoring of /repo
(written by an independent sub-agent, 85/85 tests pass).  For each: git -C /repo apply, run the quick check of every
claimed property, git -C /repo checkout.  Every check is expected to exit 0; exit 1 is a false alarm of the machinery,
exit 2 (check unusable: an anchor moved) is recorded separately.  Writes /verif/refactors/RESULTS.json."""
import json, os, subprocess, sys
from concurrent.futures import ThreadPoolExecutor

VERIF = os.path.dirname(os.path.dirname(os.path.abspath(__file__)))
args = sys.argv[1:]
props = None
if args and args[0] == "--props":
    props = args[1].split(",")
    args = args[2:]
man = json.load(open(os.path.join(VERIF, "MANIFEST.json")))
props = props or [c["property_id"] for c in man["checks"]]
base = os.path.join(VERIF, "refactors")
names = args or sorted(d for d in os.listdir(base) if os.path.exists(os.path.join(base, d, "patch.diff")))
respath = os.path.join(base, "RESULTS.json")
results = json.load(open(respath)) if os.path.exists(respath) else {}
assert subprocess.run("git -C /repo status --porcelain --untracked-files=no", shell=True, capture_output=True, text=True).stdout.strip() == "", "/repo is not clean"
bad = 0
for s in names:
    patch = os.path.join(base, s, "patch.diff")
    r = subprocess.run(["git", "-C", "/repo", "apply", patch], capture_output=True, text=True)
    if r.returncode != 0:
        print(s, "patch does not apply:", r.stderr[:200])
        results[s] = {"_apply": "failed"}
        continue
    try:
        row = results[s] = {}
        f = subprocess.run(["python3", "engine/rules/facts.py", "lib", "lib_crc32c", "tools"], cwd=VERIF, capture_output=True, text=True)

        def one(p):
            c = subprocess.run(["./check", p, "--tier", "quick"], cwd=VERIF, capture_output=True, text=True)
            keys = []
            try:
                ev = json.load(open(os.path.join(VERIF, "evidence", p + ".json")))
                keys = sorted({o["key"] for o in ev["coverage"]["samples"] if o.get("verdict") == "VIOLATED"} - set(ev["coverage"].get("known_findings_matched", [])))[:10]
            except Exception:
                pass
            return p, {"exit": c.returncode, "keys": keys if c.returncode == 1 else [], "unusable": [l for l in (c.stdout + c.stderr).splitlines() if "CHECK-UNUSABLE" in l][:1]}
        with ThreadPoolExecutor(max_workers=10) as ex:
            for p, res in ex.map(one, props):
                row[p] = res
        alarms = {p: row[p]["keys"] for p in props if row[p]["exit"] == 1}
        unusable = {p: row[p]["unusable"] for p in props if row[p]["exit"] == 2}
        bad += len(alarms)
        print("%-10s %s%s" % (s, "silent" if not alarms and not unusable else "", ("FALSE ALARM " + json.dumps(alarms)) if alarms else ""), ("unusable " + json.dumps(unusable)) if unusable else "")
    finally:
        subprocess.run("git -C /repo checkout -- . && git -C /repo clean -fdq -- src tools", shell=True)
json.dump(results, open(respath, "w"), indent=1, sort_keys=True)
sys.exit(1 if bad else 0)
