#!/usr/bin/env python3
"""seedtest.py [--props C01,C07] [seed names...]

For every seeded change under /verif/seeded/<name>/patch.diff: git -C /repo apply, run the quick
check of every claimed property (or the listed ones), record exit codes, git -C /repo checkout -- .
Writes /verif/seeded/RESULTS.json (which check catches which change)."""
import json, os, subprocess, sys, time

VERIF = os.path.dirname(os.path.dirname(os.path.abspath(__file__)))
args = sys.argv[1:]
own_only = "--own" in args
args = [a for a in args if a != "--own"]
props = None
if args and args[0] == "--props":
    props = args[1].split(",")
    args = args[2:]
man = json.load(open(os.path.join(VERIF, "MANIFEST.json")))
claimed = [c["property_id"] for c in man["checks"]]
props = props or claimed
seeds = args or sorted(d for d in os.listdir(os.path.join(VERIF, "seeded")) if os.path.exists(os.path.join(VERIF, "seeded", d, "patch.diff")))
respath = os.path.join(VERIF, "seeded", "RESULTS.json")
results = json.load(open(respath)) if os.path.exists(respath) else {}
assert subprocess.run("git -C /repo status --porcelain --untracked-files=no", shell=True, capture_output=True, text=True).stdout.strip() == "", "/repo is not clean"
for s in seeds:
    patch = os.path.join(VERIF, "seeded", s, "patch.diff")
    r = subprocess.run(["git", "-C", "/repo", "apply", patch], capture_output=True, text=True)
    if r.returncode != 0:
        print(s, "patch does not apply:", r.stderr[:200])
        results.setdefault(s, {})["_apply"] = "failed"
        continue
    try:
        row = results.setdefault(s, {})
        row.pop("_apply", None)
        # facts for the patched tree once, then the property checks in parallel (they only read /repo)
        subprocess.run(["python3", "engine/rules/facts.py", "lib", "lib_crc32c", "tools"], cwd=VERIF, capture_output=True, text=True)

        def one(p):
            c = subprocess.run(["./check", p, "--tier", "quick"], cwd=VERIF, capture_output=True, text=True)
            keys = [l.strip() for l in c.stdout.splitlines() if l.startswith("  rule ")]
            bad = []
            try:
                ev = json.load(open(os.path.join(VERIF, "evidence", p + ".json")))
                bad = sorted({o["key"] for o in ev["coverage"]["samples"] if o.get("verdict") == "VIOLATED"})[:10]
            except Exception:
                pass
            return p, {"exit": c.returncode, "violations": c.stdout.count("VIOLATION property="), "rules": sorted(set(k.split(" ")[1] for k in keys))[:6], "keys": bad,
                       "unusable": [l for l in (c.stdout + c.stderr).splitlines() if "CHECK-UNUSABLE" in l][:1]}
        from concurrent.futures import ThreadPoolExecutor
        run_props = [s.split("-")[0]] if own_only else props
        with ThreadPoolExecutor(max_workers=10) as ex:
            for p, res in ex.map(one, run_props):
                row[p] = res
        own = s.split("-")[0]
        caught = [p for p in (run_props if own_only else props) if row.get(p, {}).get("exit") == 1]
        unusable = [p for p in (run_props if own_only else props) if row.get(p, {}).get("exit") == 2]
        print("%-8s own=%s caught_by=%s%s" % (s, "YES" if own in caught else ("n/a" if own not in props else "no"), caught, (" unusable=" + str(unusable)) if unusable else ""))
    finally:
        subprocess.run("git -C /repo checkout -- . && git -C /repo clean -fdq -- src tools", shell=True)
if not own_only:
    json.dump(results, open(respath, "w"), indent=1, sort_keys=True)
