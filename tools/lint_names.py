#!/usr/bin/env python3
"""undefined global names in the rule modules (a NameError in a rarely taken branch is an internal error of a check)"""
import sys, os, importlib, dis, builtins, types
root = os.path.join(os.path.dirname(os.path.dirname(os.path.abspath(__file__))), "engine", "rules")
sys.path.insert(0, root)
os.chdir(root)
def code_objects(co):
    yield co
    for c in co.co_consts:
        if isinstance(c, types.CodeType):
            yield from code_objects(c)
bad = set()
for m in sorted(f[:-3] for f in os.listdir(".") if f.endswith(".py")):
    mod = importlib.import_module(m)
    co = compile(open(m + ".py").read(), m + ".py", "exec")
    for c in code_objects(co):
        if c is co:
            continue
        for ins in dis.get_instructions(c):
            if ins.opname in ("LOAD_GLOBAL", "LOAD_NAME") and ins.argval not in mod.__dict__ and not hasattr(builtins, ins.argval):
                bad.add((m, c.co_name, ins.argval))
for b in sorted(bad):
    print("UNDEFINED", *b)
sys.exit(1 if bad else 0)
