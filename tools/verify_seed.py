#!/usr/bin/env python3
"""verify_seed.py <src dir with patch.diff, demo/, meta.json> <name>

Confirms a seeded change independently in a scratch worktree of /repo (outside /repo and
/verif): (1) the patch applies and the workspace builds, (2) the unedited test suite passes
with it, (3) the demonstration fails with it, (4) the demonstration passes without it.
On success copies patch.diff, demo/ and an extended meta.json to /verif/seeded/<name>/.
The scratch worktree and its build output are removed afterwards."""
import json, os, re, shutil, subprocess, sys, time

VERIF = os.path.dirname(os.path.dirname(os.path.abspath(__file__)))
src, name = sys.argv[1], sys.argv[2]
wt = "/tmp/wt/verify-" + name
env = dict(os.environ, CARGO_NET_OFFLINE="true", RUSTFLAGS="-Awarnings")


def sh(cmd, cwd=None, timeout=1200):
    p = subprocess.run(cmd, shell=True, cwd=cwd, env=env, stdout=subprocess.PIPE, stderr=subprocess.STDOUT, text=True, timeout=timeout)
    return p.returncode, p.stdout


def demo_cmd(demo):
    if os.path.exists(os.path.join(demo, "run.sh")):
        return "bash run.sh"
    has_tests = os.path.isdir(os.path.join(demo, "tests")) or "#[test]" in open(os.path.join(demo, "src", "lib.rs")).read() if os.path.exists(os.path.join(demo, "src", "lib.rs")) else os.path.isdir(os.path.join(demo, "tests"))
    if has_tests:
        return "cargo test --offline"
    return "cargo run --offline"


subprocess.run("git -C /repo worktree remove --force %s 2>/dev/null; rm -rf %s" % (wt, wt), shell=True)
rc, out = sh("git -C /repo worktree add --detach %s HEAD -q" % wt)
assert rc == 0, out
result = {"name": name}
try:
    demo = "/tmp/wt/demo-" + name
    shutil.rmtree(demo, ignore_errors=True)
    shutil.copytree(os.path.join(src, "demo"), demo, ignore=shutil.ignore_patterns("target"))
    # point the demo at the scratch worktree
    for root, _, files in os.walk(demo):
        for fn in files:
            if fn.endswith((".toml", ".rs", ".sh")):
                p = os.path.join(root, fn)
                s = open(p).read()
                s2 = re.sub(r"/tmp/(wt/C\d\d|mut2/wtC\d\d|mut3/wtC\d\d|mut4/wtC\d\d|mut5/wtC\d\d|mut6/wtC\d\d)", wt, s)
                if s2 != s:
                    open(p, "w").write(s2)
    cmd = demo_cmd(demo)
    rc, out = sh("git apply --check %s" % os.path.join(src, "patch.diff"), cwd=wt)
    result["patch_applies"] = rc == 0
    assert rc == 0, out
    # clean tree: demo passes
    rc0, out0 = sh(cmd, cwd=demo)
    result["demo_passes_without_patch"] = rc0 == 0
    sh("git apply %s" % os.path.join(src, "patch.diff"), cwd=wt)
    rcb, outb = sh("cargo build --workspace --offline", cwd=wt)
    result["builds_with_patch"] = rcb == 0
    rct, outt = sh("cargo test --workspace --no-fail-fast --offline 2>&1 | grep -E '^test result'", cwd=wt)
    passed = sum(int(m) for m in re.findall(r"(\d+) passed", outt))
    failed = sum(int(m) for m in re.findall(r"(\d+) failed", outt))
    result["existing_tests_with_patch"] = {"passed": passed, "failed": failed}
    rc1, out1 = sh(cmd, cwd=demo)
    result["demo_fails_with_patch"] = rc1 != 0
    result["demo_cmd"] = cmd
    ok = result["demo_passes_without_patch"] and result["builds_with_patch"] and passed == 85 and failed == 0 and result["demo_fails_with_patch"]
    result["confirmed"] = ok
    print(json.dumps(result, indent=1))
    if not ok:
        print(out0[-1500:] if not result["demo_passes_without_patch"] else "")
        print(out1[-800:])
    if ok:
        dst = os.path.join(VERIF, "seeded", name)
        shutil.rmtree(dst, ignore_errors=True)
        os.makedirs(dst)
        shutil.copy(os.path.join(src, "patch.diff"), dst)
        shutil.copytree(os.path.join(src, "demo"), os.path.join(dst, "demo"), ignore=shutil.ignore_patterns("target", "Cargo.lock"))
        meta = json.load(open(os.path.join(src, "meta.json")))
        meta["confirmed_by_verif"] = {"at": time.strftime("%Y-%m-%d"), "base_commit": subprocess.check_output("git -C /repo rev-parse --short HEAD", shell=True, text=True).strip(),
                                      "ran": ["git apply patch.diff (scratch worktree)", "cargo build --workspace --offline", "cargo test --workspace --no-fail-fast --offline -> 85 passed", cmd + " (with patch: fails)", cmd + " (without patch: passes)"],
                                      "note": "demo/Cargo.toml names the author's scratch worktree path; verify_seed.py rewrites it to its own scratch worktree"}
        json.dump(meta, open(os.path.join(dst, "meta.json"), "w"), indent=1)
finally:
    subprocess.run("git -C /repo worktree remove --force %s; rm -rf %s /tmp/wt/demo-%s" % (wt, wt, name), shell=True)
sys.exit(0 if result.get("confirmed") else 1)
