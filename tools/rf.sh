#!/bin/bash
# usage: tools/rf.sh <refactor-or-seed dir name> <Cxx>...   apply the patch to /repo, run the checks, restore /repo
n=$1; shift
p=/verif/refactors/$n/patch.diff; [ -f $p ] || p=/verif/seeded/$n/patch.diff
git -C /repo apply $p || exit 3
for c in "$@"; do /verif/check $c 2>&1 | grep -v "^WARNING" | grep -v "^KNOWN-FINDING"; done
git -C /repo checkout -- . && git -C /repo clean -fdq -- src tools
