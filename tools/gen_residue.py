#!/usr/bin/env python3
"""Maintenance tool (not part of any check): writes spec/reviewed_panic_sites.json from the
currently undischarged panic-site signatures and the family reasons below.  A signature that
matches no family stays OPEN and is printed: it must be reviewed by hand (and either a tactic,
a family reason or a fix added).  The checks never call this script and never write the table."""
import json, os, re, sys
HERE = os.path.dirname(os.path.dirname(os.path.abspath(__file__)))
sys.path.insert(0, os.path.join(HERE, "engine", "rules"))
from mirlib import *
import panic_rules, framework

FAMILIES = [
 (r"pop_point \| (?:index|index_mut) \| arg1\.(values|pc\.prototype) ; arg1\.indices\.",
  "the index is an entry of Indices, i.e. a position returned by Iterator::position over pc.prototype in prepare_indices (C05-R3 indices/*), hence < prototype.len(); `values` holds exactly prototype.len() entries after QueueReader::pop_point returned Ok (C01-R7 pop-range / pop-then-push); pc is the iterator's private clone and is never modified"),
 (r"(QueueReader::parse_byte_streams|QueueReader::advance|QueueReader::pop_point) \| (?:index|index_mut) \| arg1\.(byte_streams|queues|pc\.prototype|buffer_sizes) ;",
  "buffer_sizes, byte_streams and queues are created with prototype.len() entries in QueueReader::new (C17-R5 fresh-queues) and the outer vectors are never pushed to, popped from or resized afterwards (C08-R4 equal-length class); the index enumerates one of these equally long vectors or 0..prototype.len()"),
 (r"QueueReader::advance \| Overflow\(Add\) \| \(ByteStreamReadBuffer::available",
  "items available in a byte stream (<= 8 * bytes held in memory / bit size) plus the length of an in-memory queue: both bounded by memory, far below 2^64"),
 (r"ByteStreamReadBuffer::(append|extract) \| (Overflow\((Sub|Add)\)|index) \|",
  "ByteStreamReadBuffer keeps offset <= 8 * buffer.len(): extract advances offset by `bits` only after available() >= bits was checked at its entry (C12-R4 window/availability-guard, window/advance) and append drops whole consumed bytes while keeping the bit phase (C12-R4 append/*). Hence offset/8 <= len, (offset+bits+7)/8 <= len and start <= end; bits <= 64 at every call site so the additions stay far below 2^64"),
 (r"ByteStreamReadBuffer::available \| Overflow\((Mul|Sub)\)",
  "the buffer only holds bytes of packets that were read into memory (at most 64 KiB per packet and stream plus the unconsumed tail), far below 2^61 bytes; offset <= 8 * buffer.len() is the struct's invariant (see ByteStreamReadBuffer::extract entries)"),
 (r"ByteStreamReadBuffer::extract \| array::index_mut \| \('repeat'",
  "the window length is ceil((offset % 8 + bits) / 8) <= 9 <= 16 because every caller passes bits <= 64: the constants 32 and 64 or ilog2(i128 difference of two i64) + 1 <= 64 (C12-R1 width formula)"),
 (r"BitPack::unpack_(scaled_)?ints \| num::ilog2 \| \(\(arg3 as i128\) Sub \(arg2 as i128\)\)",
  "called only from QueueReader::parse_byte_streams on the branch bit_size() != 0, i.e. integer_bits(min, max) > 0, which is exactly max as i128 - min as i128 > 0 (C12-R1 width guard, C12-R3 zero-width wiring); the argument is that same difference of the same record"),
 (r"PagedReader::(read_page|new|align) \||^read \| (index|Overflow\(Add\)) \| arg1\.(page_buffer|offset)",
  "PagedReader::new establishes page_size in [5, 2^20] (inferred field invariant) and rejects empty files and sizes that are no multiple of the page size (C15-R4 size-check/*), so pages = size / page_size >= 1 and pages * (page_size - 4) <= size; read_page / read test page < pages first, so page * page_size < size; page_buffer = vec![0; page_size] is never resized (C07-R1 who-may-write), so page_size - 4 <= len and offset % (page_size-4) + min(.., page_size-4 - offset % (page_size-4)) <= page_size - 4; offset <= log_file_size + 3 < 2^63"),
 (r"^(next|PointCloudWriter::add_point|E57Reader::validate_crc) \| Overflow\(Add\) \| (arg1\.(read|point_count)|phi\(0_u64 \| \(<page> Add 1_u64\)\)) ; 1_u64",
  "64-bit counter incremented once per yielded point / added point / validated page: it cannot reach 2^64 in any feasible run"),
 (r"^size_hint \| Overflow\(Sub\) \| arg1\.(pc\.)?records ; arg1\.read",
  "read <= records: read starts at 0 (C17-R5 fresh-iterator) and is incremented only on the read < records edge of next() (C01-R7 / C05-R6 yield-bounded); records is a private copy taken at construction"),
 (r"ByteStreamWriteBuffer::add_bits \| (BoundsCheck|index::index) \| (PtrMetadata\(arg2\)|arg2)",
  "data holds at least (bits + 7) / 8 bytes at every call site: add_bytes passes the whole slice with bits = 8 * len, serialize_integer passes the 8 bytes of a u64 with bits = integer_bits(..) <= 64 (C12-R2 stored-form, C12-R1)"),
 (r"ByteStreamWriteBuffer::add_bits \| Overflow\(Add\) \| (arg3 ; 7_usize|arg1\.last_byte_bit ; range::next)",
  "bits <= 64 at every call site (8 * len of a 4/8 byte array or integer_bits <= 64) and last_byte_bit <= 7 (inferred field invariant)"),
 (r"ByteStreamWriteBuffer::(add_bits|full_bytes) \| Overflow\(Sub\) \| Vec::len\(arg1\.buffer\) ; 1_usize",
  "reached only when last_byte_bit != 0, which is set to bits % 8 != 0 only after (bits + 7) / 8 >= 1 bytes were appended, and reset to 0 whenever the buffer is drained completely (get_all_bytes); get_full_bytes keeps the partial byte (C12-R5 add-bits/*)"),
 (r"ByteStreamWriteBuffer::add_bits \| index_mut \| arg1\.buffer ;",
  "target_byte <= buffer.len() - 1 + (7 + b) / 8 grows by at most one per eight bits and a zero byte is pushed whenever target_byte == buffer.len() just before the access (guard in the same loop iteration)"),
 (r"ByteStreamWriteBuffer::add_bytes \| Overflow\(Mul\) \| slice::len\(arg2\) ; 8_usize",
  "add_bytes is only called with the 4 or 8 bytes of an f32 / f64 (C12-R2 stored-form/floats-writer)"),
 (r"Blob::write \| (Overflow\(Add\) \| 16_u64 ; io::copy|num::next_multiple_of \| \(16_u64 Add io::copy)",
  "the byte count returned by io::copy was written to the device, whose capacity (file offsets are u64 / i64) is far below 2^64 - 20"),
 (r"PagedWriter::physical_position \| Overflow\(Add\) \| Seek::stream_position",
  "a stream position is at most the device size (< 2^63), offset <= 1020 (inferred field invariant)"),
 (r"PagedWriter::read_current_page \| index::index_mut \|",
  "std::io::Read::read returns n <= buf.len() by contract (trusted device), so unread[n..] is in bounds"),
 (r"PointCloudWriter::add_point \| index \| arg2 ; next\(Iterator::enumerate\(arg1\.prototype\)\)\.0",
  "guarded by the arity check values.len() == prototype.len() at the entry of add_point (C10-R4 arity guard), the index enumerates self.prototype"),
 (r"PointCloudWriter::write_buffer_to_disk \| index_mut \| arg1\.byte_streams ; next\(Iterator::enumerate\(arg1\.prototype\)\)\.0",
  "byte_streams = vec![..; prototype.len()] in PointCloudWriter::new and neither vector is resized afterwards (C10-R5 equal-length class)"),
 (r"PointCloudWriter::write_buffer_to_disk \| Overflow\(Add\) \|",
  "stream sizes are the bytes buffered for at most max_points_per_packet points; get_max_packet_points bounds a packet to 65535 bytes (C10-R1 discharged arithmetic there, C01-R5 packet-length-cap), the sum of prototype.len() such sizes, 6 + 2n and the rounding to 4 stay far below 2^64; section_length grows by <= 65535 per packet and is bounded by the file size"),
]


def main():
    sigs = {}
    old = panic_rules.load_residue()
    # evaluate with an empty table so that every undischarged site is listed
    panic_rules.load_residue = lambda: {}
    for cfg in ("lib", "lib_crc32c"):
        prog, _ = load_program(cfg, "e57")
        for kind in ("reader", "writer"):
            ctx = framework.Ctx("T", "quick")
            und, sites = panic_rules.panic_freedom(ctx, prog, "R1", "R2", kind)
            for s in und:
                e = sigs.setdefault(s.sig, {"signature": s.sig, "key": s.key, "roots": [], "where_today": s.fn.file_line(s.block)})
                if kind not in e["roots"]:
                    e["roots"].append(kind)
    # every field of `self` a function with reviewed sites reads: part of the function's provenance envelope
    fn_fields = {}
    for cfg in ("lib", "lib_crc32c"):
        prog, _ = load_program(cfg, "e57")
        for pth, fn in prog.fns.items():
            flds = set()
            def visit(pl):
                if pl["local"] == 1:
                    names = [e["name"] for e in pl["proj"] if e["k"] == "field" and e["name"]]
                    for k in range(1, len(names) + 1):
                        flds.add("arg1." + ".".join(names[:k]))
            for b in fn.blocks:
                if b["cleanup"]:
                    continue
                for st in b["stmts"]:
                    visit(st["place"])
                    rv = st["rv"]
                    if "place" in rv:
                        visit(rv["place"])
                    for key in ("op", "a", "b"):
                        if isinstance(rv.get(key), dict) and rv[key].get("k") in ("copy", "move"):
                            visit(rv[key]["place"])
                    if rv["k"] == "aggregate":
                        for o in rv["ops"]:
                            if o.get("k") in ("copy", "move"):
                                visit(o["place"])
                t = b["term"]
                if t["k"] == "call":
                    for a in t["args"]:
                        if a.get("k") in ("copy", "move"):
                            visit(a["place"])
            if flds:
                nm = short(pth) if "closure" not in pth else pth.split("::", 1)[-1]
                fn_fields.setdefault(nm, set()).update(flds)
    out, open_ = [], []
    for sig, e in sorted(sigs.items()):
        for rx, reason in FAMILIES:
            if re.search(rx, sig):
                e["reason"] = reason
                break
        if "reason" in e:
            out.append(e)
        else:
            open_.append(e)
    json.dump({"_comment": "panic sources reachable from the reader / writer API that the interval engine cannot discharge, keyed by provenance signature (function | assert kind or callee | where each operand comes from), each with the reviewed reason why it cannot fire. A site whose signature is not listed is reported as a violation; the file is never written by a check (tools/gen_residue.py is a maintenance tool).",
               "function_fields": {k: sorted(v) for k, v in sorted(fn_fields.items()) if any(e["signature"].startswith(k + " |") for e in out)},
               "sites": out}, open(os.path.join(HERE, "spec", "reviewed_panic_sites.json"), "w"), indent=1)
    print("%d reviewed entries, %d OPEN" % (len(out), len(open_)))
    for e in open_:
        print("OPEN", e["roots"], e["where_today"], "|", e["signature"])


main()
