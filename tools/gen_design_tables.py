#!/usr/bin/env python3
"""Maintenance tool: fills the seed / refactor tables of DESIGN.md from seeded/*/meta.json, seeded/RESULTS.json and
refactors/RESULTS.json (between the <!-- X:BEGIN --> / <!-- X:END --> markers)."""
import json, os, re
V = os.path.dirname(os.path.dirname(os.path.abspath(__file__)))
d = open(os.path.join(V, "DESIGN.md")).read()


def put(tag, text):
    global d
    d = re.sub(r"<!-- %s:BEGIN -->.*?<!-- %s:END -->" % (tag, tag), "<!-- %s:BEGIN -->\n%s\n<!-- %s:END -->" % (tag, text, tag), d, flags=re.S)


res = json.load(open(os.path.join(V, "seeded", "RESULTS.json"))) if os.path.exists(os.path.join(V, "seeded", "RESULTS.json")) else {}
rows = ["| seed | what it changes | caught by (rules of the own property) | also reported by |", "|------|-----------------|----------------------------------------|------------------|"]
for s in sorted(os.listdir(os.path.join(V, "seeded"))):
    mp = os.path.join(V, "seeded", s, "meta.json")
    if not os.path.exists(mp):
        continue
    m = json.load(open(mp))
    own = s.split("-")[0]
    r = res.get(s, {})
    own_rules = ", ".join(r.get(own, {}).get("rules", [])) if r.get(own, {}).get("exit") == 1 else ("NOT CAUGHT" if r else "?")
    others = ", ".join(p for p in sorted(r) if p != own and isinstance(r[p], dict) and r[p].get("exit") == 1)
    summ = m["summary"].replace("|", "/").replace("\n", " ")
    summ = summ if len(summ) < 230 else summ[:227] + "..."
    rows.append("| %s | %s | %s %s | %s |" % (s, summ, own, own_rules, others or "–"))
put("SEEDS", "\n".join(rows))
rr = json.load(open(os.path.join(V, "refactors", "RESULTS.json"))) if os.path.exists(os.path.join(V, "refactors", "RESULTS.json")) else {}
rows = ["| refactoring | what it changes | checks |", "|-------------|-----------------|--------|"]
for s in sorted(os.listdir(os.path.join(V, "refactors"))):
    mp = os.path.join(V, "refactors", s, "meta.json")
    if not os.path.exists(mp):
        continue
    m = json.load(open(mp))
    r = rr.get(s, {})
    alarms = [p for p in sorted(r) if isinstance(r[p], dict) and r[p].get("exit") == 1]
    unus = [p for p in sorted(r) if isinstance(r[p], dict) and r[p].get("exit") == 2]
    nprops = len([p for p in r if isinstance(r[p], dict) and "exit" in r[p]])
    verdict = ("silent (%d/%d exit 0)" % (nprops, nprops)) if r and not alarms and not unus else ("FALSE ALARM " + ",".join(alarms) if alarms else ("unusable " + ",".join(unus) if unus else "?"))
    summ = str(m.get("summary", "")).replace("|", "/").replace("\n", " ")
    summ = summ if len(summ) < 200 else summ[:197] + "..."
    rows.append("| %s | %s | %s |" % (s, summ, verdict))
put("REFACTORS", "\n".join(rows))
open(os.path.join(V, "DESIGN.md"), "w").write(d)
print("tables written")
