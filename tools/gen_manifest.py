#!/usr/bin/env python3
"""Regenerates /verif/MANIFEST.json from the rule modules present in engine/rules (cNN.py with
TECHNIQUE / EXPLANATION / LEVEL_NOTE) — a property without a module is listed under not_applicable."""
import importlib, json, os, sys
HERE = os.path.dirname(os.path.dirname(os.path.abspath(__file__)))
sys.path.insert(0, os.path.join(HERE, "engine", "rules"))
props = [json.loads(l) for l in open(os.path.join(HERE, "properties.jsonl"))]
checks, na = [], []
NA_REASONS = {}
try:
    NA_REASONS = json.load(open(os.path.join(HERE, "spec", "not_applicable.json")))
except FileNotFoundError:
    pass
for p in props:
    pid = p["id"]
    modfile = os.path.join(HERE, "engine", "rules", pid.lower() + ".py")
    if pid in NA_REASONS or not os.path.exists(modfile):
        na.append({"property_id": pid, "reason": NA_REASONS.get(pid, "static rule module not built yet (see DESIGN.md §4 for the planned clauses)")})
        continue
    mod = importlib.import_module(pid.lower())
    checks.append({
        "property_id": pid,
        "quick_cmd": "./check %s --tier quick" % pid,
        "thorough_cmd": "./check %s --tier thorough" % pid,
        "evidence_file": "evidence/%s.json" % pid,
        "replay_cmd_template": "./check %s --replay {path}" % pid,
        "engine": "rules",
        "technique": mod.TECHNIQUE,
        "level_claimed": {
            "category": "other",
            "text": "Static decision, over all paths of the MIR of /repo's current tree, of named structural clauses that are necessary conditions of the property: " + mod.EXPLANATION,
            "design_ref": "DESIGN.md §4 " + pid,
        },
        "level_note": getattr(mod, "LEVEL_NOTE", "Decides the named structural clauses, not the run-time behaviour. Trusted base: rustc's MIR for the real cargo configuration, std, roxmltree, the optional crc32c crate, the I/O device. Rules are keyed on def-paths and field names of today's tree; a renamed anchor makes the check end with exit 2 (unusable) rather than with a verdict."),
    })
m = {
    "version": 1,
    "setup_cmd": "cd engine/mirfacts && CARGO_NET_OFFLINE=true cargo +nightly build --release --offline && cd ../.. && python3 engine/rules/facts.py lib lib_crc32c tools controls",
    "hooks": {
        "guard": "e57_verif",
        "enable": "none needed: the checks analyse /repo as it is (cargo +nightly check with the mirfacts driver as RUSTC_WORKSPACE_WRAPPER); no hook code is compiled into e57",
        "baseline_off_cmd": "cd /repo && cargo test --workspace --no-fail-fast --offline",
        "source_commits": [],
        "add_only": True,
    },
    "engines": [
        {"name": "mirfacts", "path": "engine/mirfacts", "serves_properties": [c["property_id"] for c in checks], "kind_free_text": "rustc_private driver (nightly) dumping type-checked MIR, resolved callees, constants, ADTs and visibility of e57 and the tool crates as JSON facts"},
        {"name": "rules", "path": "engine/rules", "serves_properties": [c["property_id"] for c in checks], "kind_free_text": "Python 3 (stdlib) rule engine: pruned CFGs, dominators, edge cuts, value/expression trees, intervals, provenance labels, XML schema extraction; one module per property; controls on a fixture crate in every run"},
        {"name": "witness", "path": "witness", "serves_properties": ["C01", "C17"], "kind_free_text": "compile_fail doctests (cargo +nightly test --doc) with compiling twins"},
    ],
    "checks": checks,
    "not_applicable": na,
    "notes": "Technique family: static analysis only. exit 0 = all obligations hold or are listed in known_findings.json; exit 1 + VIOLATION line = an unlisted obligation fails; exit 2 = check unusable (tree does not build / anchor missing / control did not fire). The fix: commits made to /repo are recorded as 'fixed' entries in known_findings.json. The thorough tier additionally replays the stored property-breaking changes of the property (seeded/<id>-m*/patch.diff) on a scratch copy of the current tree (temporary directory, removed afterwards) and records in the evidence whether each is still reported (coverage.sensitivity_replay, one SENSITIVITY line); this tests the checker and never changes the verdict.",
}
json.dump(m, open(os.path.join(HERE, "MANIFEST.json"), "w"), indent=1)
print("checks:", [c["property_id"] for c in checks], "na:", [n["property_id"] for n in na])
